//! Independent TFTP codec written from RFC 1350 / 2347 / 2348 / 2349 / 7440.
//! It is the oracle for C10/C11 and the wire layer of every model peer; it
//! shares no code with tftpd's packet.rs.

use serde::{Deserialize, Serialize};

#[derive(Clone, Copy, Debug, PartialEq, Eq, Hash, Serialize, Deserialize)]
pub enum ROpt {
    Blksize,
    Tsize,
    Timeout,
    Windowsize,
}

impl ROpt {
    pub fn name(self) -> &'static str {
        match self {
            ROpt::Blksize => "blksize",
            ROpt::Tsize => "tsize",
            ROpt::Timeout => "timeout",
            ROpt::Windowsize => "windowsize",
        }
    }
    pub fn from_ascii_ci(name: &[u8]) -> Option<ROpt> {
        let lower: Vec<u8> = name.iter().map(|b| b.to_ascii_lowercase()).collect();
        match lower.as_slice() {
            b"blksize" => Some(ROpt::Blksize),
            b"tsize" => Some(ROpt::Tsize),
            b"timeout" => Some(ROpt::Timeout),
            b"windowsize" => Some(ROpt::Windowsize),
            _ => None,
        }
    }
    pub const ALL: [ROpt; 4] = [ROpt::Blksize, ROpt::Tsize, ROpt::Timeout, ROpt::Windowsize];
}

#[derive(Clone, Debug, PartialEq, Eq, Hash, Serialize, Deserialize)]
pub enum RPacket {
    Rrq {
        filename: String,
        mode: String,
        options: Vec<(ROpt, u64)>,
    },
    Wrq {
        filename: String,
        mode: String,
        options: Vec<(ROpt, u64)>,
    },
    Data {
        block: u16,
        data: Vec<u8>,
    },
    Ack(u16),
    Error {
        code: u16,
        msg: String,
    },
    Oack(Vec<(ROpt, u64)>),
}

#[derive(Clone, Debug, PartialEq, Eq)]
pub enum RDec {
    /// well-formed: this is the packet
    Ok(RPacket),
    /// malformed by a rule that property C10 names
    Reject(&'static str),
    /// neither required to be accepted nor to be rejected by the properties
    Unspecified(&'static str),
}

fn put_str(out: &mut Vec<u8>, s: &[u8]) {
    out.extend_from_slice(s);
    out.push(0);
}

fn put_opts(out: &mut Vec<u8>, opts: &[(ROpt, u64)]) {
    for (o, v) in opts {
        put_str(out, o.name().as_bytes());
        put_str(out, decimal(*v).as_bytes());
    }
}

/// decimal ASCII without using the formatting machinery tftpd uses
pub fn decimal(mut v: u64) -> String {
    if v == 0 {
        return "0".to_string();
    }
    let mut digits = vec![];
    while v > 0 {
        digits.push(b'0' + (v % 10) as u8);
        v /= 10;
    }
    digits.reverse();
    String::from_utf8(digits).unwrap()
}

pub fn encode(p: &RPacket) -> Vec<u8> {
    let mut out = vec![];
    match p {
        RPacket::Rrq {
            filename,
            mode,
            options,
        } => {
            out.extend_from_slice(&[0, 1]);
            put_str(&mut out, filename.as_bytes());
            put_str(&mut out, mode.as_bytes());
            put_opts(&mut out, options);
        }
        RPacket::Wrq {
            filename,
            mode,
            options,
        } => {
            out.extend_from_slice(&[0, 2]);
            put_str(&mut out, filename.as_bytes());
            put_str(&mut out, mode.as_bytes());
            put_opts(&mut out, options);
        }
        RPacket::Data { block, data } => {
            out.extend_from_slice(&[0, 3, (*block >> 8) as u8, (*block & 0xff) as u8]);
            out.extend_from_slice(data);
        }
        RPacket::Ack(block) => {
            out.extend_from_slice(&[0, 4, (*block >> 8) as u8, (*block & 0xff) as u8]);
        }
        RPacket::Error { code, msg } => {
            out.extend_from_slice(&[0, 5, (*code >> 8) as u8, (*code & 0xff) as u8]);
            put_str(&mut out, msg.as_bytes());
        }
        RPacket::Oack(options) => {
            out.extend_from_slice(&[0, 6]);
            put_opts(&mut out, options);
        }
    }
    out
}

/// Raw request encoder for peers and generators: arbitrary option names and
/// values (bytes), in the given order.
pub fn encode_request_raw(write: bool, filename: &[u8], mode: &[u8], opts: &[(Vec<u8>, Vec<u8>)]) -> Vec<u8> {
    let mut out = vec![0, if write { 2 } else { 1 }];
    put_str(&mut out, filename);
    put_str(&mut out, mode);
    for (n, v) in opts {
        put_str(&mut out, n);
        put_str(&mut out, v);
    }
    out
}

pub fn data(block: u16, payload: &[u8]) -> Vec<u8> {
    let mut out = vec![0, 3, (block >> 8) as u8, (block & 0xff) as u8];
    out.extend_from_slice(payload);
    out
}

pub fn ack(block: u16) -> Vec<u8> {
    vec![0, 4, (block >> 8) as u8, (block & 0xff) as u8]
}

pub fn error(code: u16, msg: &str) -> Vec<u8> {
    let mut out = vec![0, 5, (code >> 8) as u8, (code & 0xff) as u8];
    put_str(&mut out, msg.as_bytes());
    out
}

/// split `buf` into NUL-terminated strings; None if the last one is unterminated
fn split_strings(buf: &[u8]) -> Option<Vec<&[u8]>> {
    let mut out = vec![];
    let mut start = 0;
    for (i, b) in buf.iter().enumerate() {
        if *b == 0 {
            out.push(&buf[start..i]);
            start = i + 1;
        }
    }
    if start != buf.len() {
        return None;
    }
    Some(out)
}

enum OptParse {
    Ok(Vec<(ROpt, u64)>),
    Reject(&'static str),
    Unspecified(&'static str),
}

fn parse_opts(strings: &[&[u8]]) -> OptParse {
    if strings.len() % 2 != 0 {
        // an option name without a terminated value
        return OptParse::Reject("option without value (missing NUL-terminated string)");
    }
    let mut out = vec![];
    let mut unspecified = None;
    for pair in strings.chunks(2) {
        let (name, value) = (pair[0], pair[1]);
        if !name.is_ascii() {
            unspecified = Some("non-ASCII option name");
            continue;
        }
        if let Some(o) = ROpt::from_ascii_ci(name) {
            if value.is_empty() || !value.iter().all(|b| b.is_ascii_digit()) {
                if value.len() > 1 && value[0] == b'+' && value[1..].iter().all(|b| b.is_ascii_digit()) {
                    unspecified = Some("explicit plus sign");
                    continue;
                }
                return OptParse::Reject("non-numeric value of a recognised option");
            }
            let mut v: u64 = 0;
            let mut overflow = false;
            for d in value {
                match v.checked_mul(10).and_then(|x| x.checked_add((d - b'0') as u64)) {
                    Some(x) => v = x,
                    None => {
                        overflow = true;
                        break;
                    }
                }
            }
            if overflow {
                unspecified = Some("numeric value beyond 2^64-1");
                continue;
            }
            out.push((o, v));
        } else if std::str::from_utf8(value).is_err() {
            unspecified = Some("non-UTF-8 value of an unknown option");
        }
    }
    match unspecified {
        Some(u) => OptParse::Unspecified(u),
        None => OptParse::Ok(out),
    }
}

pub fn decode(buf: &[u8]) -> RDec {
    if buf.len() < 2 {
        return RDec::Reject("shorter than the opcode");
    }
    let opcode = ((buf[0] as u16) << 8) | buf[1] as u16;
    match opcode {
        1 | 2 => {
            let Some(strings) = split_strings(&buf[2..]) else {
                return RDec::Reject("missing NUL terminator");
            };
            if strings.len() < 2 {
                return RDec::Reject("missing NUL terminator (filename/mode)");
            }
            let (Ok(filename), Ok(mode)) = (std::str::from_utf8(strings[0]), std::str::from_utf8(strings[1])) else {
                return RDec::Unspecified("non-UTF-8 filename or mode");
            };
            match parse_opts(&strings[2..]) {
                OptParse::Ok(options) => {
                    if opcode == 1 {
                        RDec::Ok(RPacket::Rrq {
                            filename: filename.to_string(),
                            mode: mode.to_string(),
                            options,
                        })
                    } else {
                        RDec::Ok(RPacket::Wrq {
                            filename: filename.to_string(),
                            mode: mode.to_string(),
                            options,
                        })
                    }
                }
                OptParse::Reject(r) => RDec::Reject(r),
                OptParse::Unspecified(u) => RDec::Unspecified(u),
            }
        }
        3 => {
            if buf.len() < 4 {
                return RDec::Reject("DATA shorter than its header");
            }
            RDec::Ok(RPacket::Data {
                block: ((buf[2] as u16) << 8) | buf[3] as u16,
                data: buf[4..].to_vec(),
            })
        }
        4 => {
            if buf.len() < 4 {
                return RDec::Reject("ACK shorter than its header");
            }
            RDec::Ok(RPacket::Ack(((buf[2] as u16) << 8) | buf[3] as u16))
        }
        5 => {
            if buf.len() < 4 {
                return RDec::Reject("ERROR shorter than its header");
            }
            let code = ((buf[2] as u16) << 8) | buf[3] as u16;
            if code > 7 {
                return RDec::Reject("unknown error code");
            }
            match buf[4..].iter().position(|b| *b == 0) {
                Some(i) => match std::str::from_utf8(&buf[4..4 + i]) {
                    Ok(m) => RDec::Ok(RPacket::Error {
                        code,
                        msg: m.to_string(),
                    }),
                    Err(_) => RDec::Unspecified("non-UTF-8 error message"),
                },
                // the pinned baseline test parses_error_without_message demands acceptance
                None => RDec::Unspecified("ERROR message without terminator"),
            }
        }
        6 => {
            let Some(strings) = split_strings(&buf[2..]) else {
                return RDec::Reject("missing NUL terminator");
            };
            match parse_opts(&strings) {
                OptParse::Ok(options) => RDec::Ok(RPacket::Oack(options)),
                OptParse::Reject(r) => RDec::Reject(r),
                OptParse::Unspecified(u) => RDec::Unspecified(u),
            }
        }
        _ => RDec::Reject("unknown opcode"),
    }
}

// ---- conversion to and from tftpd's public types (field by field) ----

use tftpd::{ErrorCode, OptionType, Packet, TransferOption};

pub fn opt_to_t(o: ROpt) -> OptionType {
    match o {
        ROpt::Blksize => OptionType::BlockSize,
        ROpt::Tsize => OptionType::TransferSize,
        ROpt::Timeout => OptionType::Timeout,
        ROpt::Windowsize => OptionType::Windowsize,
    }
}

pub fn opt_from_t(o: OptionType) -> ROpt {
    match o {
        OptionType::BlockSize => ROpt::Blksize,
        OptionType::TransferSize => ROpt::Tsize,
        OptionType::Timeout => ROpt::Timeout,
        OptionType::Windowsize => ROpt::Windowsize,
    }
}

pub fn code_to_t(c: u16) -> Option<ErrorCode> {
    Some(match c {
        0 => ErrorCode::NotDefined,
        1 => ErrorCode::FileNotFound,
        2 => ErrorCode::AccessViolation,
        3 => ErrorCode::DiskFull,
        4 => ErrorCode::IllegalOperation,
        5 => ErrorCode::UnknownId,
        6 => ErrorCode::FileExists,
        7 => ErrorCode::NoSuchUser,
        _ => return None,
    })
}

pub fn code_from_t(c: ErrorCode) -> u16 {
    match c {
        ErrorCode::NotDefined => 0,
        ErrorCode::FileNotFound => 1,
        ErrorCode::AccessViolation => 2,
        ErrorCode::DiskFull => 3,
        ErrorCode::IllegalOperation => 4,
        ErrorCode::UnknownId => 5,
        ErrorCode::FileExists => 6,
        ErrorCode::NoSuchUser => 7,
    }
}

fn opts_to_t(o: &[(ROpt, u64)]) -> Vec<TransferOption> {
    o.iter()
        .map(|(o, v)| TransferOption {
            option: opt_to_t(*o),
            value: *v as usize,
        })
        .collect()
}

fn opts_from_t(o: &[TransferOption]) -> Vec<(ROpt, u64)> {
    o.iter().map(|t| (opt_from_t(t.option), t.value as u64)).collect()
}

pub fn to_t(p: &RPacket) -> Packet {
    match p {
        RPacket::Rrq {
            filename,
            mode,
            options,
        } => Packet::Rrq {
            filename: filename.clone(),
            mode: mode.clone(),
            options: opts_to_t(options),
        },
        RPacket::Wrq {
            filename,
            mode,
            options,
        } => Packet::Wrq {
            filename: filename.clone(),
            mode: mode.clone(),
            options: opts_to_t(options),
        },
        RPacket::Data { block, data } => Packet::Data {
            block_num: *block,
            data: data.clone(),
        },
        RPacket::Ack(b) => Packet::Ack(*b),
        RPacket::Error { code, msg } => Packet::Error {
            code: code_to_t(*code).expect("error code 0..7"),
            msg: msg.clone(),
        },
        RPacket::Oack(o) => Packet::Oack(opts_to_t(o)),
    }
}

pub fn from_t(p: &Packet) -> RPacket {
    match p {
        Packet::Rrq {
            filename,
            mode,
            options,
        } => RPacket::Rrq {
            filename: filename.clone(),
            mode: mode.clone(),
            options: opts_from_t(options),
        },
        Packet::Wrq {
            filename,
            mode,
            options,
        } => RPacket::Wrq {
            filename: filename.clone(),
            mode: mode.clone(),
            options: opts_from_t(options),
        },
        Packet::Data { block_num, data } => RPacket::Data {
            block: *block_num,
            data: data.clone(),
        },
        Packet::Ack(b) => RPacket::Ack(*b),
        Packet::Error { code, msg } => RPacket::Error {
            code: code_from_t(*code),
            msg: msg.clone(),
        },
        Packet::Oack(o) => RPacket::Oack(opts_from_t(o)),
    }
}
