//! Glue between byte-level fuzzers (libFuzzer) and the property oracles:
//! bytes are decoded into the same case types the proptest drivers use and
//! judged by the same functions. A violation panics (libFuzzer saves the input).

use crate::common::{Judge, Obs};
use crate::props::{c01, c02, c04, c07, c08, c10, c11, c18};
use crate::refcodec::{ROpt, RPacket};
use crate::sim::{self, After, Fate, Role, Scenario, Sev};
use arbitrary::Unstructured;
use std::path::PathBuf;
use std::sync::OnceLock;

fn scratch() -> &'static PathBuf {
    static DIR: OnceLock<PathBuf> = OnceLock::new();
    DIR.get_or_init(|| {
        let base = if std::path::Path::new("/dev/shm").is_dir() { PathBuf::from("/dev/shm/verif-work") } else { PathBuf::from("/verif/.work") };
        let d = base.join(format!("fuzz-{}", std::process::id()));
        let _ = std::fs::create_dir_all(&d);
        // the code under test prints one line per transfer
        if std::env::var("VERIF_VERBOSE").is_err() {
            if let Ok(devnull) = std::fs::File::options().write(true).open("/dev/null") {
                use std::os::fd::AsRawFd;
                unsafe {
                    libc::dup2(devnull.as_raw_fd(), 1);
                }
            }
        }
        sim::init();
        d
    })
}

fn string(u: &mut Unstructured) -> String {
    let s: String = u.arbitrary().unwrap_or_default();
    s.replace('\0', "")
}

fn options(u: &mut Unstructured) -> Vec<(ROpt, u64)> {
    let n = u.int_in_range(0..=6).unwrap_or(0);
    (0..n)
        .map(|_| {
            let o = ROpt::ALL[u.int_in_range(0..=3).unwrap_or(0)];
            let v: u64 = if u.ratio(1, 3).unwrap_or(false) { u.arbitrary().unwrap_or(0) } else { u.int_in_range(0..=70000u64).unwrap_or(0) };
            (o, v)
        })
        .collect()
}

pub fn packet(u: &mut Unstructured) -> RPacket {
    match u.int_in_range(0..=5).unwrap_or(0) {
        0 => RPacket::Rrq { filename: string(u), mode: string(u), options: options(u) },
        1 => RPacket::Wrq { filename: string(u), mode: string(u), options: options(u) },
        2 => RPacket::Data { block: u.arbitrary().unwrap_or(0), data: u.arbitrary().unwrap_or_default() },
        3 => RPacket::Ack(u.arbitrary().unwrap_or(0)),
        4 => RPacket::Error { code: u.int_in_range(0..=7).unwrap_or(0), msg: string(u) },
        _ => RPacket::Oack(options(u)),
    }
}

pub fn window_case(u: &mut Unstructured) -> c18::Case {
    let writer: bool = u.arbitrary().unwrap_or(false);
    let size: u16 = if u.ratio(1, 12).unwrap_or(false) { *u.choose(&[255u16, 1024, 1025, 65535]).unwrap_or(&65535) } else { u.int_in_range(0..=6).unwrap_or(1) };
    let chunk = u.int_in_range(1..=9usize).unwrap_or(1);
    let file_len = u.int_in_range(0..=((size.min(8) as usize + 2) * chunk + 1)).unwrap_or(0);
    let n = u.int_in_range(0..=40usize).unwrap_or(0);
    let mut ops = vec![];
    for _ in 0..n {
        ops.push(match u.int_in_range(0..=7).unwrap_or(0) {
            0 | 1 => c18::Op::Fill,
            2 => c18::Op::Remove(u.int_in_range(0..=(size.min(8) + 1)).unwrap_or(0)),
            3 => c18::Op::Remove(u.arbitrary().unwrap_or(0)),
            4 => c18::Op::Add(u.int_in_range(0..=9).unwrap_or(0)),
            5 => c18::Op::Empty,
            7 => c18::Op::AddSized(u.int_in_range(0..=70000).unwrap_or(0)),
            _ => c18::Op::AddMany(u.int_in_range(0..=2000).unwrap_or(0)),
        });
    }
    c18::Case { writer, size, chunk, file_len, ops, fsize_limit: None }
}

fn fate(u: &mut Unstructured) -> Fate {
    match u.int_in_range(0..=9).unwrap_or(0) {
        0 | 1 => Fate::Drop,
        2 => Fate::Dup,
        3 => Fate::Swap,
        4 => Fate::Late,
        _ => Fate::Deliver,
    }
}

fn sev(u: &mut Unstructured, role: Role) -> Sev {
    let k = u.int_in_range(0..=15).unwrap_or(0);
    match (role, k) {
        (_, 0..=4) => Sev::Pass,
        (_, 5) => Sev::Hold,
        (_, 6) => Sev::DropPending,
        (Role::Sender, 7) => Sev::AckFull,
        (Role::Sender, 8) => Sev::AckPartial(u.arbitrary().unwrap_or(0)),
        (Role::Sender, 9) => Sev::AckDup(u.int_in_range(0..=3).unwrap_or(0)),
        (Role::Sender, 10) => Sev::AckFuture(u.int_in_range(0..=40).unwrap_or(0)),
        (Role::Sender, 11) => Sev::AckRaw(u.arbitrary().unwrap_or(0)),
        (Role::Sender, 12) => Sev::At(*u.choose(&[0u16, 1, 500, 999, 1000]).unwrap_or(&0)),
        (Role::Receiver, 7 | 8) => Sev::DataDup(u.int_in_range(0..=4).unwrap_or(0)),
        (Role::Receiver, 9 | 10) => Sev::DataFuture(u.int_in_range(0..=5).unwrap_or(0)),
        (Role::Receiver, 11 | 12) => Sev::StrayAck(u.arbitrary().unwrap_or(0)),
        (_, 13) => Sev::Garbage(u.arbitrary().unwrap_or_default()),
        (_, 14) => Sev::Oack,
        _ => Sev::Error(u.int_in_range(0..=7).unwrap_or(0)),
    }
}

pub fn scenario(u: &mut Unstructured, role: Role) -> Scenario {
    let blk = *u.choose(&[8usize, 8, 8, 9, 16, 512, 1024]).unwrap_or(&8);
    let ws: u16 = if u.ratio(1, 10).unwrap_or(false) { *u.choose(&[65534u16, 65535]).unwrap_or(&65535) } else { u.int_in_range(1..=8).unwrap_or(1) };
    let blocks = u.int_in_range(0..=24usize).unwrap_or(0);
    let rem = u.int_in_range(0..=blk - 1).unwrap_or(0);
    let nf = u.int_in_range(0..=30usize).unwrap_or(0);
    let fates: Vec<Fate> = (0..nf).map(|_| fate(u)).collect();
    let ns = u.int_in_range(0..=24usize).unwrap_or(0);
    let script: Vec<Sev> = (0..ns).map(|_| sev(u, role)).collect();
    Scenario {
        role,
        blk,
        ws,
        file_len: blocks * blk + rem,
        seed: u.arbitrary().unwrap_or(0),
        repeat: 1,
        handshake: role == Role::Sender && u.arbitrary().unwrap_or(false),
        clean: u.arbitrary().unwrap_or(true),
        fates,
        fates_at: 0,
        script,
        after: if u.ratio(1, 5).unwrap_or(false) { After::Silent } else { After::Honest },
        gap_ack: u.arbitrary().unwrap_or(true),
        dally: u.arbitrary().unwrap_or(true),
        pre_existing: role == Role::Receiver && u.ratio(1, 4).unwrap_or(false),
        fsize_limit: None,
        peer_leaves: false,
        timeout_s: 4,
    }
}

/// judge one fuzz input; Ok(()) also for inputs that decode to nothing interesting
pub fn judge(target: &str, data: &[u8]) -> Judge {
    let mut obs = Obs::default();
    let mut u = Unstructured::new(data);
    match target {
        "decode" => c10::judge_bytes(data, &mut obs),
        "codec" => c11::judge_packet(&packet(&mut u), &mut obs),
        "window" => c18::judge(scratch(), &window_case(&mut u), &mut obs),
        "send" => c01::judge(scratch(), &scenario(&mut u, Role::Sender), &mut obs),
        "recv" => c02::judge(scratch(), &scenario(&mut u, Role::Receiver), &mut obs),
        "loss" => {
            // C04: fault fates only, at most 5 of them, conformant peer
            let role = if u.arbitrary().unwrap_or(false) { Role::Sender } else { Role::Receiver };
            let mut sc = scenario(&mut u, role);
            sc.script.clear();
            sc.after = After::Honest;
            let mut n = 0;
            for f in sc.fates.iter_mut() {
                if *f != Fate::Deliver {
                    n += 1;
                    if n > 5 {
                        *f = Fate::Deliver;
                    }
                }
            }
            c04::judge(scratch(), &sc, &mut obs)
        }
        "term" => {
            let role = if u.arbitrary().unwrap_or(false) { Role::Sender } else { Role::Receiver };
            c07::judge(scratch(), &scenario(&mut u, role), &mut obs)
        }
        "flow" => {
            let mut sc = scenario(&mut u, Role::Sender);
            sc.fates.clear();
            if sc.handshake {
                sc.script.insert(0, Sev::Pass);
            }
            sc.dally = true;
            c08::judge(scratch(), &sc, &mut obs)
        }
        other => panic!("unknown fuzz target {}", other),
    }
}

pub fn run(target: &str, data: &[u8]) {
    let _ = scratch();
    if let Err(v) = judge(target, data) {
        panic!("PROPERTY VIOLATION sig={} detail={}", v.sig, v.detail);
    }
}

pub fn property_of(target: &str) -> &'static str {
    match target {
        "decode" => "C10",
        "codec" => "C11",
        "window" => "C18",
        "send" => "C01",
        "recv" => "C02",
        "loss" => "C04",
        "term" => "C07",
        "flow" => "C08",
        _ => "?",
    }
}
