//! Scenario generators shared by the sim-based properties.

use crate::sim::{After, Fate, Role, Scenario, Sev};
use proptest::prelude::*;

/// (blksize, windowsize, file length): boundary families around block and window edges
pub fn geometry(max_blocks: usize) -> BoxedStrategy<(usize, u16, usize)> {
    let blk = prop_oneof![
        6 => prop::sample::select(vec![8usize, 8, 9, 16, 13]),
        2 => prop::sample::select(vec![511usize, 512, 513, 1024, 1428]),
        1 => prop::sample::select(vec![8192usize, 65464]),
        1 => 8usize..=65464,
    ];
    let ws = prop_oneof![
        8 => 1u16..=8,
        1 => prop::sample::select(vec![16u16, 64]),
        1 => prop::sample::select(vec![65534u16, 65535]),
        1 => 1u16..=65535,
    ];
    (blk, ws, any::<u16>(), 0u8..12, 0usize..64)
        .prop_map(move |(blk, ws, r, fam, rnd)| {
            let w = (ws as usize).min(8);
            let cap_blocks = if blk > 2048 { 3 } else if blk > 64 { 12 } else { max_blocks };
            let len = match fam {
                0 => 0,
                1 => 1,
                2 => blk - 1,
                3 => blk,
                4 => blk + 1,
                5 => w * blk - 1,
                6 => w * blk,
                7 => w * blk + 1,
                8 => (w + 1) * blk,
                9 => 2 * w * blk + (r as usize % blk),
                _ => (rnd % (cap_blocks + 1)) * blk + (r as usize % blk),
            };
            let len = len.min(cap_blocks * blk + blk - 1);
            (blk, ws, len)
        })
        .boxed()
}

pub fn fate() -> BoxedStrategy<Fate> {
    prop_oneof![
        3 => Just(Fate::Drop),
        2 => Just(Fate::Dup),
        1 => Just(Fate::Swap),
        1 => Just(Fate::Late),
    ]
    .boxed()
}

/// a fate list of length <= max_len with at most max_faults non-Deliver entries
pub fn fates(max_len: usize, max_faults: usize) -> BoxedStrategy<Vec<Fate>> {
    proptest::collection::vec((0usize..max_len.max(1), fate()), 0..=max_faults)
        .prop_map(move |fs| {
            let mut v = vec![Fate::Deliver; 0];
            for (pos, f) in fs {
                if v.len() <= pos {
                    v.resize(pos + 1, Fate::Deliver);
                }
                v[pos] = f;
            }
            v
        })
        .boxed()
}

pub fn sender_sev() -> BoxedStrategy<Sev> {
    prop_oneof![
        10 => Just(Sev::Pass),
        2 => Just(Sev::Hold),
        2 => Just(Sev::DropPending),
        2 => prop::sample::select(vec![0u16, 1, 500, 999, 1000]).prop_map(Sev::At),
        3 => Just(Sev::AckFull),
        4 => any::<u16>().prop_map(Sev::AckPartial),
        4 => prop_oneof![3 => 0u16..4, 1 => any::<u16>()].prop_map(Sev::AckDup),
        2 => (0u16..40).prop_map(Sev::AckFuture),
        1 => any::<u16>().prop_map(Sev::AckRaw),
        1 => (0u16..8).prop_map(Sev::Error),
        1 => (0u16..8, prop::sample::select(vec![2u16, 6, 21, 45, 63, 65, 127, 129, 255, 500, 507, 508, 509, 510, 511, 512, 513, 600, 1500])).prop_map(|(c, n)| Sev::ErrorLong(c, n)),
        1 => proptest::collection::vec(any::<u8>(), 0..6).prop_map(Sev::Garbage),
        1 => Just(Sev::Oack),
        1 => any::<u16>().prop_map(Sev::StrayData),
    ]
    .boxed()
}

pub fn receiver_sev() -> BoxedStrategy<Sev> {
    prop_oneof![
        10 => Just(Sev::Pass),
        2 => Just(Sev::Hold),
        2 => Just(Sev::DropPending),
        4 => prop_oneof![3 => 0u16..4, 1 => 0u16..1000].prop_map(Sev::DataDup),
        3 => (0u16..6).prop_map(Sev::DataFuture),
        1 => (0u16..8).prop_map(Sev::Error),
        1 => (0u16..8, prop::sample::select(vec![2u16, 3, 4, 5, 6, 7, 8, 9, 20, 21, 33, 45, 63, 65, 127, 129, 255, 600])).prop_map(|(c, n)| Sev::ErrorLong(c, n)),
        1 => proptest::collection::vec(any::<u8>(), 0..6).prop_map(Sev::Garbage),
        1 => Just(Sev::Oack),
        2 => any::<u16>().prop_map(Sev::StrayAck),
    ]
    .boxed()
}

/// scripts without ERROR (for properties that want the transfer to go on)
pub fn no_error(v: Vec<Sev>) -> Vec<Sev> {
    v.into_iter().filter(|e| !matches!(e, Sev::Error(_) | Sev::ErrorLong(..))).collect()
}

pub fn after() -> BoxedStrategy<After> {
    prop_oneof![4 => Just(After::Honest), 1 => Just(After::Silent)].boxed()
}

#[allow(clippy::too_many_arguments)]
pub fn scenario(role: Role, geo: (usize, u16, usize), seed: u64, handshake: bool, fates: Vec<Fate>, script: Vec<Sev>, after: After, flags: (bool, bool, bool)) -> Scenario {
    Scenario {
        role,
        blk: geo.0,
        ws: geo.1,
        file_len: geo.2,
        seed,
        repeat: 1,
        handshake: handshake && role == Role::Sender,
        clean: flags.2,
        fates,
        fates_at: 0,
        script,
        after,
        gap_ack: flags.0,
        dally: flags.1,
        pre_existing: false,
        fsize_limit: None,
        peer_leaves: false,
        // the negotiated timeout is part of the domain (virtual time: a long one costs nothing); a pure function of the generated seed
        timeout_s: [4u16, 4, 4, 1, 2, 5, 31, 255][((seed >> 7) % 8) as usize],
    }
}
