//! Shared plumbing: run context, statistics/evidence, proptest driver with
//! sharding and shrinking, replay files, known findings.

use proptest::strategy::{BoxedStrategy, Strategy};
use proptest::test_runner::{Config, RngSeed, TestCaseError, TestError, TestRunner};
use serde::{de::DeserializeOwned, Serialize};
use serde_json::{json, Value};
use std::cell::RefCell;
use std::collections::{BTreeMap, HashSet};
use std::fs::{self, File};
use std::hash::{Hash, Hasher};
use std::io::Write;
use std::path::{Path, PathBuf};
use std::sync::atomic::{AtomicBool, AtomicU64, Ordering};
use std::sync::Mutex;
use std::time::Instant;

pub const VERIF_ROOT: &str = "/verif";
pub fn shards() -> usize { std::env::var("VERIF_SHARDS").ok().and_then(|s| s.parse().ok()).unwrap_or(16) }
pub const SHARDS: usize = 16;

#[derive(Clone, Copy, PartialEq, Eq, Debug)]
pub enum Tier {
    Quick,
    Thorough,
}

impl Tier {
    pub fn name(self) -> &'static str {
        match self {
            Tier::Quick => "quick",
            Tier::Thorough => "thorough",
        }
    }
    /// pick by tier
    pub fn pick<T>(self, quick: T, thorough: T) -> T {
        match self {
            Tier::Quick => quick,
            Tier::Thorough => thorough,
        }
    }
}

/// A violation found by an oracle. `sig` is a stable, input-independent
/// signature used to match known findings; `detail` explains the concrete case.
#[derive(Clone, Debug, Serialize, serde::Deserialize)]
pub struct Viol {
    pub sig: String,
    pub detail: String,
}

impl Viol {
    pub fn new(sig: impl Into<String>, detail: impl Into<String>) -> Viol {
        Viol {
            sig: sig.into(),
            detail: detail.into(),
        }
    }
}

pub type Judge = Result<(), Viol>;

#[macro_export]
macro_rules! viol {
    ($sig:expr, $($arg:tt)*) => {
        return Err($crate::common::Viol::new($sig, format!($($arg)*)))
    };
}

/// Per-case observer handed to every judge: the judge labels the case.
#[derive(Default)]
pub struct Obs {
    pub nontrivial: bool,
    pub discard: Option<&'static str>,
    pub inconclusive: Option<String>,
    pub classes: Vec<&'static str>,
    /// extra datum folded into the distinctness fingerprint (e.g. trace shape)
    pub shape: u64,
}

impl Obs {
    pub fn class(&mut self, c: &'static str) {
        if !self.classes.contains(&c) {
            self.classes.push(c);
        }
    }
    pub fn class_if(&mut self, cond: bool, c: &'static str) {
        if cond {
            self.class(c)
        }
    }
}

#[derive(Default, Serialize, serde::Deserialize)]
pub struct Stats {
    pub evaluations: u64,
    pub nontrivial: u64,
    pub distinct: HashSet<u64>,
    /// non-trivial cases that are distinct by construction (exhaustive enumerations)
    pub distinct_counted: u64,
    pub classes: BTreeMap<String, u64>,
    pub discarded: BTreeMap<String, u64>,
    pub inconclusive: u64,
    pub inconclusive_notes: Vec<String>,
    pub known_excluded: BTreeMap<String, u64>,
    pub samples: Vec<Value>,
    pub exhaustive_parts: Vec<String>,
    pub parts: BTreeMap<String, u64>,
}

impl Stats {
    pub fn merge(&mut self, o: Stats) {
        self.evaluations += o.evaluations;
        self.nontrivial += o.nontrivial;
        self.distinct.extend(o.distinct);
        self.distinct_counted += o.distinct_counted;
        for (k, v) in o.classes {
            *self.classes.entry(k).or_default() += v;
        }
        for (k, v) in o.discarded {
            *self.discarded.entry(k).or_default() += v;
        }
        self.inconclusive += o.inconclusive;
        for n in o.inconclusive_notes {
            if self.inconclusive_notes.len() < 10 {
                self.inconclusive_notes.push(n);
            }
        }
        for (k, v) in o.known_excluded {
            *self.known_excluded.entry(k).or_default() += v;
        }
        for s in o.samples {
            self.samples.push(s);
        }
        for (k, v) in o.parts {
            *self.parts.entry(k).or_default() += v;
        }
        for p in o.exhaustive_parts {
            if !self.exhaustive_parts.contains(&p) {
                self.exhaustive_parts.push(p);
            }
        }
    }
}

pub fn hash_of<T: Hash>(t: &T) -> u64 {
    let mut h = std::collections::hash_map::DefaultHasher::new();
    t.hash(&mut h);
    h.finish()
}

pub fn hash_str(s: &str) -> u64 {
    // FNV-1a, stable across runs and builds
    let mut h: u64 = 0xcbf29ce484222325;
    for b in s.as_bytes() {
        h ^= *b as u64;
        h = h.wrapping_mul(0x100000001b3);
    }
    h
}

#[derive(Clone, Debug)]
pub struct KnownFinding {
    pub property: String,
    pub sig: String,
    pub what: String,
}

pub struct Failure {
    pub part: String,
    pub viol: Viol,
    pub case: Value,
}

pub struct Ctx {
    pub id: String,
    pub tier: Tier,
    pub seed: u64,
    pub checked_build: bool,
    out: Mutex<File>,
    pub work: PathBuf,
    pub known: Vec<KnownFinding>,
    pub start: Instant,
    pub stats: Mutex<Stats>,
    pub failures: Mutex<Vec<Failure>>,
    pub rule: Mutex<String>,
    pub assumptions: Mutex<Vec<String>>,
    pub extra: Mutex<BTreeMap<String, Value>>,
    pub level: Mutex<String>,
    pub stop: AtomicBool,
    work_counter: AtomicU64,
}

impl Ctx {
    pub fn new(id: &str, tier: Tier, seed: u64, out: File) -> Ctx {
        // scratch lives on tmpfs when available (ext4 create/unlink serialises the shards), else under /verif/.work
        let shm = Path::new("/dev/shm");
        let root = if std::env::var("VERIF_WORK_ON_DISK").is_err() && shm.is_dir() && fs::create_dir_all(shm.join("verif-work")).is_ok() {
            shm.join("verif-work")
        } else {
            PathBuf::from(VERIF_ROOT).join(".work")
        };
        // remove scratch of runs whose process is gone
        if let Ok(rd) = fs::read_dir(&root) {
            for e in rd.flatten() {
                let name = e.file_name().to_string_lossy().to_string();
                if let Some(pid) = name.rsplit('-').next().and_then(|p| p.parse::<i32>().ok()) {
                    if unsafe { libc::kill(pid, 0) } != 0 {
                        let _ = fs::remove_dir_all(e.path());
                    }
                }
            }
        }
        let work = root.join(format!("{}-{}", id, std::process::id()));
        let _ = fs::remove_dir_all(&work);
        fs::create_dir_all(&work).expect("create work dir");
        Ctx {
            id: id.to_string(),
            tier,
            seed,
            checked_build: cfg!(debug_assertions),
            out: Mutex::new(out),
            work,
            known: load_known(id),
            start: Instant::now(),
            stats: Mutex::new(Stats::default()),
            failures: Mutex::new(vec![]),
            rule: Mutex::new(String::new()),
            assumptions: Mutex::new(vec![]),
            extra: Mutex::new(BTreeMap::new()),
            level: Mutex::new("exploration".into()),
            stop: AtomicBool::new(false),
            work_counter: AtomicU64::new(0),
        }
    }

    /// Print a line to the real stdout (fd 1 is redirected to /dev/null so
    /// that the chatter of worker threads does not drown the report).
    pub fn say(&self, line: &str) {
        let mut o = self.out.lock().unwrap();
        let _ = writeln!(o, "{}", line);
        let _ = o.flush();
    }

    pub fn set_rule(&self, r: &str) {
        *self.rule.lock().unwrap() = r.to_string();
    }
    pub fn set_level(&self, l: &str) {
        *self.level.lock().unwrap() = l.to_string();
    }
    pub fn assume(&self, a: &str) {
        self.assumptions.lock().unwrap().push(a.to_string());
    }
    pub fn extra(&self, k: &str, v: Value) {
        self.extra.lock().unwrap().insert(k.to_string(), v);
    }

    /// A fresh private directory for one case / shard.
    pub fn fresh_dir(&self, tag: &str) -> PathBuf {
        let n = self.work_counter.fetch_add(1, Ordering::SeqCst);
        let p = self.work.join(format!("{}-{}-p{}", tag, n, std::process::id()));
        fs::create_dir_all(&p).expect("create case dir");
        p
    }

    pub fn is_known(&self, sig: &str) -> Option<&KnownFinding> {
        self.known.iter().find(|k| k.sig == sig)
    }

    pub fn shard_seed(&self, part: &str, shard: usize) -> u64 {
        let mut h = hash_str(part) ^ self.seed.wrapping_mul(0x9E3779B97F4A7C15);
        h = h.wrapping_add((shard as u64 + 1).wrapping_mul(0xD1B54A32D192ED03));
        h ^= h >> 29;
        h = h.wrapping_mul(0xBF58476D1CE4E5B9);
        h ^ (h >> 32)
    }

    pub fn failed(&self) -> bool {
        !self.failures.lock().unwrap().is_empty()
    }

    pub fn cleanup(&self) {
        let _ = fs::remove_dir_all(&self.work);
    }
}

fn load_known(id: &str) -> Vec<KnownFinding> {
    let p = Path::new(VERIF_ROOT).join("known_findings.json");
    let Ok(s) = fs::read_to_string(&p) else {
        return vec![];
    };
    let Ok(v) = serde_json::from_str::<Value>(&s) else {
        return vec![];
    };
    let mut out = vec![];
    if let Some(arr) = v.get("open").and_then(|a| a.as_array()) {
        for e in arr {
            let prop = e.get("property").and_then(|x| x.as_str()).unwrap_or("");
            if prop != id {
                continue;
            }
            out.push(KnownFinding {
                property: prop.to_string(),
                sig: e
                    .get("signature")
                    .and_then(|x| x.as_str())
                    .unwrap_or("")
                    .to_string(),
                what: e
                    .get("what")
                    .and_then(|x| x.as_str())
                    .unwrap_or("")
                    .to_string(),
            });
        }
    }
    out
}

/// Record one judged case into shard-local stats. Returns Err only for a
/// violation that is not a listed known finding.
pub fn record<C: Serialize>(
    ctx: &Ctx,
    st: &mut Stats,
    part: &str,
    case: &C,
    fp: Option<u64>,
    obs: Obs,
    res: Judge,
) -> Judge {
    st.evaluations += 1;
    *st.parts.entry(part.to_string()).or_default() += 1;
    if let Some(d) = obs.discard {
        *st.discarded.entry(d.to_string()).or_default() += 1;
        return Ok(());
    }
    if let Some(n) = obs.inconclusive {
        st.inconclusive += 1;
        if st.inconclusive_notes.len() < 5 {
            st.inconclusive_notes.push(n);
        }
        return Ok(());
    }
    for c in &obs.classes {
        *st.classes.entry(format!("{}/{}", part, c)).or_default() += 1;
    }
    if obs.nontrivial {
        st.nontrivial += 1;
        match fp {
            Some(fp) => {
                st.distinct.insert(fp ^ obs.shape.rotate_left(17));
            }
            None => st.distinct_counted += 1,
        }
        // deterministic reservoir: keep the samples with the smallest hash
        if st.samples.len() < 4 {
            st.samples.push(json!({"part": part, "case": serde_json::to_value(case).unwrap_or(Value::Null), "classes": obs.classes}));
        }
    }
    match res {
        Ok(()) => Ok(()),
        Err(v) => {
            if ctx.is_known(&v.sig).is_some() {
                *st.known_excluded.entry(v.sig.clone()).or_default() += 1;
                Ok(())
            } else {
                Err(v)
            }
        }
    }
}


#[derive(Serialize, serde::Deserialize)]
struct ShardOut {
    stats: Stats,
    fail: Option<(Viol, Value)>,
}

/// Run `f(shard)` for every shard in its own forked process (the worker
/// threads of the code under test contend on the address space when many of
/// them are spawned from one process) and collect the results. Falls back to
/// threads with VERIF_FORK=0.
fn run_sharded<F>(ctx: &Ctx, nshards: usize, f: F) -> Vec<ShardOut>
where
    F: Fn(usize) -> ShardOut + Sync,
{
    let use_fork = std::env::var("VERIF_FORK").map(|v| v != "0").unwrap_or(true);
    if !use_fork || nshards == 1 {
        return std::thread::scope(|s| {
            let hs: Vec<_> = (0..nshards).map(|k| { let f = &f; s.spawn(move || f(k)) }).collect();
            hs.into_iter().map(|h| h.join().expect("shard panicked")).collect()
        });
    }
    let tag = ctx.work_counter.fetch_add(1, Ordering::SeqCst);
    let mut pids = vec![];
    for k in 0..nshards {
        let path = ctx.work.join(format!("shard-{}-{}.json", tag, k));
        let pid = unsafe { libc::fork() };
        if pid < 0 {
            ctx.say("fork failed");
            std::process::exit(2);
        }
        if pid == 0 {
            // child
            let code = match std::panic::catch_unwind(std::panic::AssertUnwindSafe(|| f(k))) {
                Ok(out) => match serde_json::to_vec(&out) {
                    Ok(b) => {
                        if fs::write(&path, b).is_ok() {
                            0
                        } else {
                            3
                        }
                    }
                    Err(_) => 4,
                },
                Err(_) => 5,
            };
            unsafe { libc::_exit(code) };
        }
        pids.push((pid, path));
    }
    let mut outs = vec![];
    for (pid, path) in pids {
        let mut status = 0;
        unsafe { libc::waitpid(pid, &mut status, 0) };
        let ok = libc::WIFEXITED(status) && libc::WEXITSTATUS(status) == 0;
        let parsed = if ok { fs::read(&path).ok().and_then(|b| serde_json::from_slice::<ShardOut>(&b).ok()) } else { None };
        let _ = fs::remove_file(&path);
        match parsed {
            Some(o) => outs.push(o),
            None => {
                ctx.say(&format!("HARNESS FAILURE: shard process {} ended abnormally (status {:#x}); the check did not complete", pid, status));
                ctx.cleanup();
                std::process::exit(2);
            }
        }
    }
    outs
}

fn merge_shards(ctx: &Ctx, part: &str, exhaustive: bool, results: Vec<ShardOut>) {
    let mut best: Option<(Viol, Value)> = None;
    {
        let mut st = ctx.stats.lock().unwrap();
        if exhaustive {
            st.exhaustive_parts.push(part.to_string());
        }
        for o in results {
            st.merge(o.stats);
            if let Some((v, c)) = o.fail {
                let better = match &best {
                    None => true,
                    Some((_, bc)) => c.to_string().len() < bc.to_string().len(),
                };
                if better {
                    best = Some((v, c));
                }
            }
        }
    }
    if let Some((v, c)) = best {
        report_failure(ctx, part, v, c);
    }
}

/// Run `cases` generated cases of one part, split over SHARDS threads, each
/// with its own deterministic proptest runner; shrink the first failure of
/// each shard and keep the smallest.
pub fn explore<C, MK, J>(ctx: &Ctx, part: &str, cases: u32, mk: MK, judge: J)
where
    C: std::fmt::Debug + Clone + Serialize + Send + 'static,
    MK: Fn() -> BoxedStrategy<C> + Sync,
    J: Fn(&C, &mut Obs) -> Judge + Sync,
{
    explore_n(ctx, part, cases, shards(), 4096, mk, judge)
}

pub fn explore_n<C, MK, J>(
    ctx: &Ctx,
    part: &str,
    cases: u32,
    shards: usize,
    max_shrink_iters: u32,
    mk: MK,
    judge: J,
) where
    C: std::fmt::Debug + Clone + Serialize + Send + 'static,
    MK: Fn() -> BoxedStrategy<C> + Sync,
    J: Fn(&C, &mut Obs) -> Judge + Sync,
{
    if ctx.stop.load(Ordering::SeqCst) {
        return;
    }
    let per = (cases as usize + shards - 1) / shards;
    let results = run_sharded(ctx, shards, |shard| {
        let cfg = Config {
            cases: per as u32,
            failure_persistence: None,
            rng_seed: RngSeed::Fixed(ctx.shard_seed(part, shard)),
            max_shrink_iters,
            // real-time (wire) parts pass a small iteration budget; bound the wall time as well
            max_shrink_time: if max_shrink_iters <= 256 { 90_000 } else { 0 },
            max_global_rejects: 1_000_000,
            ..Config::default()
        };
        let mut runner = TestRunner::new(cfg);
        let strat = mk();
        let stats = RefCell::new(Stats::default());
        let failed = RefCell::new(false);
        let last_viol: RefCell<Option<Viol>> = RefCell::new(None);
        let r = runner.run(&strat, |case| {
            let mut obs = Obs::default();
            let res = judge(&case, &mut obs);
            if *failed.borrow() {
                // shrinking: do not count, only report pass/fail
                return match res {
                    Err(v) if ctx.is_known(&v.sig).is_none() => {
                        *last_viol.borrow_mut() = Some(v.clone());
                        Err(TestCaseError::fail(v.sig))
                    }
                    _ => Ok(()),
                };
            }
            let fp = hash_str(&format!("{:?}", case));
            let mut st = stats.borrow_mut();
            match record(ctx, &mut st, part, &case, Some(fp), obs, res) {
                Ok(()) => Ok(()),
                Err(v) => {
                    *failed.borrow_mut() = true;
                    *last_viol.borrow_mut() = Some(v.clone());
                    Err(TestCaseError::fail(v.sig))
                }
            }
        });
        let fail = match r {
            Ok(()) => None,
            Err(TestError::Fail(_, c)) => {
                // re-judge the minimal case to get its own detail
                let mut obs = Obs::default();
                let v = match judge(&c, &mut obs) {
                    Err(v) => v,
                    Ok(()) => last_viol
                        .borrow()
                        .clone()
                        .unwrap_or(Viol::new("unstable", "failure did not reproduce on the shrunk case")),
                };
                Some((v, serde_json::to_value(&c).unwrap_or(Value::Null)))
            }
            Err(TestError::Abort(why)) => Some((Viol::new("harness-abort", format!("proptest aborted: {}", why)), Value::Null)),
        };
        ShardOut {
            stats: stats.into_inner(),
            fail,
        }
    });
    merge_shards(ctx, part, false, results);
}

/// Run an explicitly enumerated list of cases (deterministic, seed
/// independent), sharded by index.
pub fn enumerate<C, J>(ctx: &Ctx, part: &str, cases: &[C], exhaustive: bool, judge: J)
where
    C: std::fmt::Debug + Clone + Serialize + Sync + Send,
    J: Fn(&C, &mut Obs) -> Judge + Sync,
{
    enumerate_idx(ctx, part, cases.len() as u64, exhaustive, |i| cases[i as usize].clone(), judge)
}

/// Enumerate cases `make(0..n)`; cases are distinct by construction.
pub fn enumerate_idx<C, M, J>(ctx: &Ctx, part: &str, n: u64, exhaustive: bool, make: M, judge: J)
where
    C: std::fmt::Debug + Clone + Serialize + Send,
    M: Fn(u64) -> C + Sync,
    J: Fn(&C, &mut Obs) -> Judge + Sync,
{
    if ctx.stop.load(Ordering::SeqCst) {
        return;
    }
    let nsh = shards();
    let results = run_sharded(ctx, nsh, |shard| {
        let mut st = Stats::default();
        let mut fail = None;
        let mut i = shard as u64;
        while i < n {
            let c = make(i);
            let mut obs = Obs::default();
            let res = judge(&c, &mut obs);
            if let Err(v) = record(ctx, &mut st, part, &c, None, obs, res) {
                fail = Some((v, serde_json::to_value(&c).unwrap_or(Value::Null)));
                break;
            }
            i += nsh as u64;
        }
        ShardOut { stats: st, fail }
    });
    merge_shards(ctx, part, exhaustive, results);
}

pub fn report_failure(ctx: &Ctx, part: &str, v: Viol, case: Value) {
    ctx.failures.lock().unwrap().push(Failure {
        part: part.to_string(),
        viol: v,
        case,
    });
}

/// Judge a single case outside proptest (replay).
pub fn replay_one<C, J>(ctx: &Ctx, part: &str, case_json: &Value, judge: J) -> bool
where
    C: std::fmt::Debug + Clone + Serialize + DeserializeOwned,
    J: Fn(&C, &mut Obs) -> Judge,
{
    let case: C = match serde_json::from_value(case_json.clone()) {
        Ok(c) => c,
        Err(e) => {
            ctx.say(&format!("replay: cannot decode case for part {}: {}", part, e));
            std::process::exit(2);
        }
    };
    let mut obs = Obs::default();
    let res = judge(&case, &mut obs);
    let mut st = ctx.stats.lock().unwrap();
    let fp = hash_str(&format!("{:?}", case));
    // replay is strict: known findings are reported as failures too
    st.evaluations += 1;
    if obs.nontrivial {
        st.nontrivial += 1;
        st.distinct.insert(fp);
    }
    match res {
        Ok(()) => {
            if std::env::var("VERIF_VERBOSE").is_ok() {
                ctx.say(&format!("replay: part={} case passes", part));
            }
            true
        }
        Err(v) => {
            ctx.say(&format!("replay: part={} FAILS sig={} detail={}", part, v.sig, v.detail));
            false
        }
    }
}

pub fn write_replay(ctx: &Ctx, f: &Failure) -> PathBuf {
    let dir = Path::new(VERIF_ROOT).join("replays");
    let _ = fs::create_dir_all(&dir);
    let body = json!({
        "property": ctx.id,
        "part": f.part,
        "signature": f.viol.sig,
        "detail": f.viol.detail,
        "seed": ctx.seed,
        "tier": ctx.tier.name(),
        "case": f.case,
    });
    let text = serde_json::to_string_pretty(&body).unwrap();
    let h = hash_str(&format!("{}{}{}", f.part, f.viol.sig, f.case));
    let p = dir.join(format!("{}-{:016x}.json", ctx.id, h));
    let _ = fs::write(&p, text);
    p
}

/// Write evidence, print VIOLATION / KNOWN-FINDING lines, return exit code.
pub fn finish(ctx: &Ctx) -> i32 {
    let st = std::mem::take(&mut *ctx.stats.lock().unwrap());
    let failures = std::mem::take(&mut *ctx.failures.lock().unwrap());
    let wall = ctx.start.elapsed().as_secs_f64();
    let mut coverage = serde_json::Map::new();
    coverage.insert("evaluations".into(), json!(st.evaluations));
    coverage.insert("nontrivial".into(), json!(st.nontrivial));
    let distinct_total = st.distinct.len() as u64 + st.distinct_counted;
    coverage.insert("distinct_nontrivial".into(), json!(distinct_total));
    coverage.insert("rule".into(), json!(*ctx.rule.lock().unwrap()));
    // trim samples deterministically
    let mut samples = st.samples.clone();
    samples.sort_by_key(|s| hash_str(&s.to_string()));
    samples.truncate(10);
    coverage.insert("samples".into(), Value::Array(samples));
    coverage.insert("classes".into(), json!(st.classes));
    coverage.insert("parts".into(), json!(st.parts));
    coverage.insert("discarded_out_of_domain".into(), json!(st.discarded));
    coverage.insert("inconclusive".into(), json!(st.inconclusive));
    coverage.insert("inconclusive_notes".into(), json!(st.inconclusive_notes));
    coverage.insert("excluded_known_findings".into(), json!(st.known_excluded));
    coverage.insert("exhaustive_parts".into(), json!(st.exhaustive_parts));
    // flag classes the generator hardly produced
    let mut thin = vec![];
    for (k, v) in &st.classes {
        // classes are keyed part/class; compare with the number of cases of that part
        let part = k.split('/').next().unwrap_or("");
        let total = st.parts.get(part).copied().unwrap_or(st.evaluations);
        if total > 0 && (*v as f64) < 0.01 * total as f64 {
            thin.push(k.clone());
        }
    }
    coverage.insert("classes_below_1_percent".into(), json!(thin));
    coverage.insert(
        "build_profile".into(),
        json!(if ctx.checked_build { "checked (overflow checks + debug assertions)" } else { "release" }),
    );
    for (k, v) in ctx.extra.lock().unwrap().iter() {
        coverage.insert(k.clone(), v.clone());
    }
    let ev = json!({
        "property_id": ctx.id,
        "tier": ctx.tier.name(),
        "seed": ctx.seed,
        "level": *ctx.level.lock().unwrap(),
        "coverage": Value::Object(coverage),
        "assumptions": *ctx.assumptions.lock().unwrap(),
        "wall_s": (wall * 1000.0).round() / 1000.0,
        "violations": failures.len(),
    });
    let evdir = Path::new(VERIF_ROOT).join("evidence");
    let _ = fs::create_dir_all(&evdir);
    let suffix = std::env::var("VERIF_EVIDENCE_SUFFIX").unwrap_or_default();
    let evpath = evdir.join(format!("{}{}.json", ctx.id, suffix));
    fs::write(&evpath, serde_json::to_string_pretty(&ev).unwrap()).expect("write evidence");

    for (sig, n) in &st.known_excluded {
        let what = ctx.is_known(sig).map(|k| k.what.clone()).unwrap_or_default();
        ctx.say(&format!(
            "KNOWN-FINDING: property={} signature={} occurrences={} {}",
            ctx.id, sig, n, what
        ));
    }
    ctx.say(&format!(
        "{} tier={} seed={} evaluations={} nontrivial={} distinct_nontrivial={} discarded={} inconclusive={} wall={:.1}s",
        ctx.id,
        ctx.tier.name(),
        ctx.seed,
        st.evaluations,
        st.nontrivial,
        distinct_total,
        st.discarded.values().sum::<u64>(),
        st.inconclusive,
        wall
    ));
    let mut code = 0;
    for f in &failures {
        let p = write_replay(ctx, f);
        ctx.say(&format!("  part={} signature={} detail={}", f.part, f.viol.sig, f.viol.detail));
        ctx.say(&format!("VIOLATION property={} replay={}", ctx.id, p.display()));
        code = 1;
    }
    ctx.cleanup();
    code
}

/// Deterministic pseudo-random content: every 8-byte stride encodes its own
/// absolute offset mixed with `seed`, so a block carried under a wrong number
/// (also 65536 positions away) never matches.
pub fn content(seed: u64, len: usize) -> Vec<u8> {
    let mut v = Vec::with_capacity(len + 8);
    let mut i = 0usize;
    while v.len() < len {
        let mut x = (i as u64).wrapping_mul(0x9E3779B97F4A7C15) ^ seed.wrapping_mul(0xD1B54A32D192ED03);
        x ^= x >> 31;
        x = x.wrapping_mul(0xBF58476D1CE4E5B9);
        x ^= x >> 29;
        v.extend_from_slice(&x.to_le_bytes());
        i += 1;
    }
    v.truncate(len);
    v
}

pub fn hex(b: &[u8]) -> String {
    let mut s = String::with_capacity(b.len() * 2);
    for x in b.iter().take(64) {
        s.push_str(&format!("{:02x}", x));
    }
    if b.len() > 64 {
        s.push_str(&format!("..(+{})", b.len() - 64));
    }
    s
}

/// Monotone index mapping for shrink-friendly choices.
pub fn pick_idx(raw: u16, len: usize) -> usize {
    ((raw as usize) * len) >> 16
}

pub fn boxed<S: Strategy + 'static>(s: S) -> BoxedStrategy<S::Value> {
    s.boxed()
}

/// serde helper: Vec<u8> as a hex string (compact replay files)
pub mod hexbytes {
    use serde::{Deserialize, Deserializer, Serializer};
    pub fn serialize<S: Serializer>(v: &Vec<u8>, s: S) -> Result<S::Ok, S::Error> {
        let mut out = String::with_capacity(v.len() * 2);
        for b in v {
            out.push_str(&format!("{:02x}", b));
        }
        s.serialize_str(&out)
    }
    pub fn deserialize<'de, D: Deserializer<'de>>(d: D) -> Result<Vec<u8>, D::Error> {
        let s = String::deserialize(d)?;
        let b = s.as_bytes();
        let mut out = Vec::with_capacity(b.len() / 2);
        let mut i = 0;
        while i + 1 < b.len() {
            let h = (b[i] as char).to_digit(16).unwrap_or(0) as u8;
            let l = (b[i + 1] as char).to_digit(16).unwrap_or(0) as u8;
            out.push(h << 4 | l);
            i += 2;
        }
        Ok(out)
    }
}

/// Run a closure, converting a panic into Err(message).
pub fn no_panic<T>(f: impl FnOnce() -> T) -> Result<T, String> {
    match std::panic::catch_unwind(std::panic::AssertUnwindSafe(f)) {
        Ok(v) => Ok(v),
        Err(e) => {
            let msg = if let Some(s) = e.downcast_ref::<&str>() {
                s.to_string()
            } else if let Some(s) = e.downcast_ref::<String>() {
                s.clone()
            } else {
                "panic".to_string()
            };
            Err(msg)
        }
    }
}

/// One scratch directory per calling thread.
pub struct DirPool {
    base: PathBuf,
}

impl DirPool {
    pub fn new(ctx: &Ctx, tag: &str) -> DirPool {
        DirPool { base: ctx.fresh_dir(tag) }
    }
    pub fn with<T>(&self, f: impl FnOnce(&Path) -> T) -> T {
        let p = self.base.join(format!("p{}-{:?}", std::process::id(), std::thread::current().id()).replace(['(', ')'], ""));
        if !p.exists() {
            let _ = fs::create_dir_all(&p);
        }
        f(&p)
    }
}


/// Run a judge in a forked child whose RLIMIT_FSIZE makes writes beyond `limit` bytes fail with EFBIG
/// (SIGXFSZ ignored). The verdict and the labels come back over a pipe.
pub fn in_limited_child(limit: u64, obs: &mut Obs, known_classes: &[&'static str], f: impl FnOnce(&mut Obs) -> Judge) -> Judge {
    use std::io::{Read, Write};
    use std::os::fd::FromRawFd;
    let mut fds = [0i32; 2];
    if unsafe { libc::pipe(fds.as_mut_ptr()) } != 0 {
        panic!("pipe failed");
    }
    let pid = unsafe { libc::fork() };
    if pid < 0 {
        panic!("fork failed");
    }
    if pid == 0 {
        unsafe {
            libc::close(fds[0]);
            libc::signal(libc::SIGXFSZ, libc::SIG_IGN);
            let rl = libc::rlimit { rlim_cur: limit, rlim_max: limit };
            libc::setrlimit(libc::RLIMIT_FSIZE, &rl);
        }
        let mut o = Obs::default();
        let res = std::panic::catch_unwind(std::panic::AssertUnwindSafe(|| f(&mut o)));
        let msg = match res {
            Ok(Ok(())) => json!({"ok": true, "nontrivial": o.nontrivial, "classes": o.classes, "shape": o.shape}),
            Ok(Err(v)) => json!({"ok": false, "sig": v.sig, "detail": v.detail, "nontrivial": o.nontrivial, "classes": o.classes, "shape": o.shape}),
            Err(_) => json!({"ok": false, "sig": "harness-panic", "detail": "judge panicked in the limited child", "classes": [], "nontrivial": false, "shape": 0}),
        };
        let mut w = unsafe { File::from_raw_fd(fds[1]) };
        let _ = w.write_all(msg.to_string().as_bytes());
        drop(w);
        unsafe { libc::_exit(0) };
    }
    unsafe { libc::close(fds[1]) };
    let mut rd = unsafe { File::from_raw_fd(fds[0]) };
    let mut text = String::new();
    let _ = rd.read_to_string(&mut text);
    let mut status = 0;
    unsafe { libc::waitpid(pid, &mut status, 0) };
    let v: Value = serde_json::from_str(&text).unwrap_or(json!({"ok": false, "sig": "harness-child", "detail": format!("limited child died (status {:#x})", status), "classes": [], "nontrivial": false, "shape": 0}));
    obs.nontrivial = v["nontrivial"].as_bool().unwrap_or(false);
    obs.shape = v["shape"].as_u64().unwrap_or(0);
    for cl in v["classes"].as_array().cloned().unwrap_or_default() {
        if let Some(s) = cl.as_str() {
            for k in known_classes {
                if *k == s {
                    obs.class(k);
                }
            }
        }
    }
    if v["ok"].as_bool().unwrap_or(false) {
        Ok(())
    } else {
        Err(Viol::new(v["sig"].as_str().unwrap_or("?"), v["detail"].as_str().unwrap_or("?")))
    }
}
