//! Engine `wire`: the real tftpd / tftpc binaries on loopback.

use std::collections::BTreeMap;
use std::fs;
use std::net::{SocketAddr, UdpSocket};
use std::path::{Path, PathBuf};
use std::process::{Child, Command, Stdio};
use std::time::{Duration, Instant};

pub fn bindir() -> PathBuf {
    PathBuf::from(std::env::var("VERIF_BINDIR").unwrap_or_else(|_| "/verif/target/bins-release/release".to_string()))
}

/// A loopback address private to this process (the whole 127.0.0.0/8 is local on Linux): shards run as separate
/// processes, and a late retransmission of one shard's server towards a closed, recycled client port must never
/// reach another shard's socket.
pub fn local_ip() -> String {
    static IP: std::sync::OnceLock<String> = std::sync::OnceLock::new();
    // per process, decided on first use AFTER the fork (OnceLock is copied by fork, so the pid is part of the check)
    let pid = std::process::id();
    let ip = format!("127.{}.{}.1", 16 + ((pid >> 8) & 0x7f), pid & 0xff);
    let cached = IP.get_or_init(|| ip.clone());
    if *cached == ip {
        cached.clone()
    } else {
        ip
    }
}

pub fn free_port() -> u16 {
    let s = UdpSocket::bind(format!("{}:0", local_ip())).expect("bind probe socket");
    s.local_addr().unwrap().port()
}

pub struct Server {
    child: Child,
    pub port: u16,
    pub addr: SocketAddr,
    pub out_path: PathBuf,
    pub err_path: PathBuf,
}

pub enum StartError {
    /// the process exited at start-up (bad arguments etc.)
    Exited(i32, String),
    /// could not be started for reasons outside the code under test
    Harness(String),
}

impl Server {
    /// Start tftpd with `-i <ip> -p <free port>` + args; wait for its banner.
    pub fn start_on(ip: &str, args: &[String], logdir: &Path, cwd: Option<&Path>) -> Result<Server, StartError> {
        let exe = bindir().join("tftpd");
        for attempt in 0..20 {
            let port = if ip.contains(':') {
                let s = UdpSocket::bind("[::1]:0").map_err(|e| StartError::Harness(format!("no IPv6 loopback: {}", e)))?;
                s.local_addr().unwrap().port()
            } else {
                free_port()
            };
            let out_path = logdir.join(format!("tftpd-{}-{}.out", port, attempt));
            let err_path = logdir.join(format!("tftpd-{}-{}.err", port, attempt));
            let out = fs::File::create(&out_path).map_err(|e| StartError::Harness(e.to_string()))?;
            let err = fs::File::create(&err_path).map_err(|e| StartError::Harness(e.to_string()))?;
            let mut cmd = Command::new(&exe);
            cmd.arg("-i").arg(ip).arg("-p").arg(port.to_string());
            cmd.args(args);
            if let Some(c) = cwd {
                cmd.current_dir(c);
            }
            cmd.stdin(Stdio::null()).stdout(out).stderr(err);
            let mut child = cmd.spawn().map_err(|e| StartError::Harness(format!("cannot spawn {}: {}", exe.display(), e)))?;
            let t0 = Instant::now();
            loop {
                if let Ok(text) = fs::read_to_string(&out_path) {
                    if text.contains("Running TFTP Server") {
                        let addr: SocketAddr = if ip.contains(':') { format!("[{}]:{}", ip, port).parse().unwrap() } else { format!("{}:{}", ip, port).parse().unwrap() };
                        return Ok(Server {
                            child,
                            port,
                            addr,
                            out_path,
                            err_path,
                        });
                    }
                }
                if let Ok(Some(st)) = child.try_wait() {
                    let e = fs::read_to_string(&err_path).unwrap_or_default();
                    if e.contains("Problem creating server") && (e.contains("in use") || e.contains("Address already")) {
                        break; // port collision: retry with another port
                    }
                    return Err(StartError::Exited(st.code().unwrap_or(-1), e));
                }
                // no (recognised) banner after a second: ask the port itself - a listening server answers a stray ACK with an ERROR
                if t0.elapsed() > Duration::from_secs(1) && !ip.contains(':') {
                    if let Ok(probe) = UdpSocket::bind(format!("{}:0", ip)) {
                        let _ = probe.set_read_timeout(Some(Duration::from_millis(200)));
                        let target = format!("{}:{}", ip, port);
                        let _ = probe.send_to(&[0, 4, 0, 0], &target);
                        let mut b = [0u8; 64];
                        if let Ok((n, _)) = probe.recv_from(&mut b) {
                            if n >= 4 && b[1] == 5 {
                                let addr: SocketAddr = target.parse().unwrap();
                                return Ok(Server { child, port, addr, out_path, err_path });
                            }
                        }
                    }
                }
                if t0.elapsed() > Duration::from_secs(10) {
                    let _ = child.kill();
                    let _ = child.wait();
                    return Err(StartError::Harness("tftpd printed no banner within 10 s".into()));
                }
                std::thread::sleep(Duration::from_micros(300));
            }
        }
        Err(StartError::Harness("no free port after 20 attempts".into()))
    }

    pub fn start(args: &[String], logdir: &Path) -> Result<Server, StartError> {
        Server::start_on(&local_ip(), args, logdir, None)
    }

    /// None = still running
    pub fn exit_status(&mut self) -> Option<String> {
        match self.child.try_wait() {
            Ok(None) => None,
            Ok(Some(st)) => Some(format!("{:?}", st)),
            Err(e) => Some(format!("wait error {}", e)),
        }
    }

    pub fn stderr_tail(&self) -> String {
        let e = fs::read_to_string(&self.err_path).unwrap_or_default();
        let lines: Vec<&str> = e.lines().collect();
        lines[lines.len().saturating_sub(6)..].join(" | ")
    }

    pub fn stdout_text(&self) -> String {
        fs::read_to_string(&self.out_path).unwrap_or_default()
    }
}

impl Drop for Server {
    fn drop(&mut self) {
        let _ = self.child.kill();
        let _ = self.child.wait();
        let _ = fs::remove_file(&self.out_path);
        let _ = fs::remove_file(&self.err_path);
    }
}

pub struct Client {
    pub sock: UdpSocket,
}

impl Client {
    pub fn new() -> Client {
        let sock = UdpSocket::bind(format!("{}:0", local_ip())).expect("bind client");
        Client { sock }
    }
    pub fn new_v6() -> Option<Client> {
        UdpSocket::bind("[::1]:0").ok().map(|sock| Client { sock })
    }
    /// Try to enlarge the receive buffer beyond rmem_max (needs CAP_NET_ADMIN); returns the effective size.
    pub fn force_rcvbuf(&self, bytes: i32) -> i32 {
        use std::os::fd::AsRawFd;
        let fd = self.sock.as_raw_fd();
        unsafe {
            let v = bytes;
            let p = &v as *const i32 as *const libc::c_void;
            if libc::setsockopt(fd, libc::SOL_SOCKET, libc::SO_RCVBUFFORCE, p, 4) != 0 {
                libc::setsockopt(fd, libc::SOL_SOCKET, libc::SO_RCVBUF, p, 4);
            }
            let mut got: i32 = 0;
            let mut len: libc::socklen_t = 4;
            libc::getsockopt(fd, libc::SOL_SOCKET, libc::SO_RCVBUF, &mut got as *mut i32 as *mut libc::c_void, &mut len);
            got
        }
    }
    pub fn port(&self) -> u16 {
        self.sock.local_addr().unwrap().port()
    }
    pub fn send(&self, bytes: &[u8], to: SocketAddr) -> bool {
        self.sock.send_to(bytes, to).is_ok()
    }
    pub fn recv(&self, timeout: Duration) -> Option<(Vec<u8>, SocketAddr)> {
        let _ = self.sock.set_read_timeout(Some(timeout.max(Duration::from_micros(100))));
        let mut buf = vec![0u8; 65536];
        match self.sock.recv_from(&mut buf) {
            Ok((n, from)) => {
                buf.truncate(n);
                Some((buf, from))
            }
            Err(_) => None,
        }
    }
    /// drain everything that arrives within `quiet`
    pub fn drain(&self, quiet: Duration) -> Vec<(Vec<u8>, SocketAddr)> {
        let mut out = vec![];
        while let Some(x) = self.recv(quiet) {
            out.push(x);
            if out.len() > 10_000 {
                break;
            }
        }
        out
    }
}

#[derive(Clone, Debug, PartialEq, Eq)]
pub enum Entry {
    Dir,
    File { len: u64, hash: u64 },
    Other,
}

pub fn fnv(bytes: &[u8]) -> u64 {
    let mut h: u64 = 0xcbf29ce484222325;
    for b in bytes {
        h ^= *b as u64;
        h = h.wrapping_mul(0x100000001b3);
    }
    h
}

/// recursive snapshot: relative path -> entry (symlinks are not followed)
pub fn snapshot(root: &Path) -> BTreeMap<String, Entry> {
    let mut out = BTreeMap::new();
    fn walk(root: &Path, dir: &Path, out: &mut BTreeMap<String, Entry>) {
        let Ok(rd) = fs::read_dir(dir) else { return };
        for e in rd.flatten() {
            let p = e.path();
            let rel = p.strip_prefix(root).unwrap().to_string_lossy().to_string();
            let Ok(md) = fs::symlink_metadata(&p) else { continue };
            if md.is_dir() {
                out.insert(rel, Entry::Dir);
                walk(root, &p, out);
            } else if md.is_file() {
                let b = fs::read(&p).unwrap_or_default();
                out.insert(rel, Entry::File { len: md.len(), hash: fnv(&b) });
            } else {
                out.insert(rel, Entry::Other);
            }
        }
    }
    walk(root, root, &mut out);
    out
}

/// paths that differ between two snapshots: (path, before, after)
pub fn diff(a: &BTreeMap<String, Entry>, b: &BTreeMap<String, Entry>) -> Vec<(String, Option<Entry>, Option<Entry>)> {
    let mut out = vec![];
    for (k, v) in a {
        match b.get(k) {
            Some(w) if w == v => {}
            other => out.push((k.clone(), Some(v.clone()), other.cloned())),
        }
    }
    for (k, w) in b {
        if !a.contains_key(k) {
            out.push((k.clone(), None, Some(w.clone())));
        }
    }
    out
}

pub fn rcvbuf_errors() -> u64 {
    // /proc/net/snmp: "Udp: InDatagrams NoPorts InErrors OutDatagrams RcvbufErrors ..."
    let Ok(t) = fs::read_to_string("/proc/net/snmp") else { return 0 };
    let lines: Vec<&str> = t.lines().filter(|l| l.starts_with("Udp:")).collect();
    if lines.len() < 2 {
        return 0;
    }
    let names: Vec<&str> = lines[0].split_whitespace().collect();
    let vals: Vec<&str> = lines[1].split_whitespace().collect();
    names.iter().position(|n| *n == "RcvbufErrors").and_then(|i| vals.get(i)).and_then(|v| v.parse().ok()).unwrap_or(0)
}

pub fn s(x: &str) -> String {
    x.to_string()
}
