//! vcheck <ID> [--tier quick|thorough] [--seed N] [--replay FILE]

use std::fs::File;
use std::os::fd::{AsRawFd, FromRawFd};
use vh::common::*;
use vh::props;

fn usage() -> ! {
    eprintln!("usage: vcheck <ID> [--tier quick|thorough] [--seed N] [--replay FILE]");
    std::process::exit(2)
}

fn main() {
    let args: Vec<String> = std::env::args().collect();
    if args.len() < 2 {
        usage();
    }
    let id = args[1].to_uppercase();
    let mut tier = match std::env::var("VERIF_TIER").as_deref() {
        Ok("thorough") => Tier::Thorough,
        _ => Tier::Quick,
    };
    let mut tier_forced = false;
    let mut seed: u64 = std::env::var("VERIF_SEED").ok().and_then(|s| s.parse().ok()).unwrap_or(1);
    let mut replay: Option<String> = None;
    let mut i = 2;
    while i < args.len() {
        match args[i].as_str() {
            "--tier" => {
                i += 1;
                tier = match args.get(i).map(|s| s.as_str()) {
                    Some("quick") => Tier::Quick,
                    Some("thorough") => Tier::Thorough,
                    _ => usage(),
                };
                tier_forced = true;
            }
            "--seed" => {
                i += 1;
                seed = args.get(i).and_then(|s| s.parse().ok()).unwrap_or_else(|| usage());
            }
            "--replay" => {
                i += 1;
                replay = Some(args.get(i).cloned().unwrap_or_else(|| usage()));
            }
            _ => usage(),
        }
        i += 1;
    }
    let _ = tier_forced;

    // Keep the real stdout for the report, silence fd 1/2 (worker threads of
    // the code under test print one line per transfer).
    let saved = unsafe { libc::dup(1) };
    let out = unsafe { File::from_raw_fd(saved) };
    if std::env::var("VERIF_VERBOSE").is_err() {
        let devnull = File::options().write(true).open("/dev/null").unwrap();
        unsafe {
            libc::dup2(devnull.as_raw_fd(), 1);
            libc::dup2(devnull.as_raw_fd(), 2);
        }
        std::panic::set_hook(Box::new(|_| {}));
    }
    // allow many sockets / files
    unsafe {
        let mut rl = libc::rlimit { rlim_cur: 0, rlim_max: 0 };
        if libc::getrlimit(libc::RLIMIT_NOFILE, &mut rl) == 0 {
            rl.rlim_cur = rl.rlim_max.min(65536);
            libc::setrlimit(libc::RLIMIT_NOFILE, &rl);
        }
    }

    let ctx = Ctx::new(&id, tier, seed, out);
    if let Some(path) = replay.clone().filter(|p| p.ends_with(".bin")) {
        // a saved libFuzzer input: <ID>-fuzz-<target>-<hash>.bin
        let name = std::path::Path::new(&path).file_name().and_then(|n| n.to_str()).unwrap_or("").to_string();
        let target = name.split('-').nth(2).unwrap_or("").to_string();
        let data = std::fs::read(&path).unwrap_or_else(|e| {
            ctx.say(&format!("cannot read {}: {}", path, e));
            std::process::exit(2)
        });
        if vh::fuzzglue::property_of(&target) != id {
            ctx.say(&format!("{} is not a fuzz input of property {}", path, id));
            std::process::exit(2);
        }
        match vh::fuzzglue::judge(&target, &data) {
            Ok(()) => {
                ctx.cleanup();
                std::process::exit(0)
            }
            Err(v) => {
                ctx.say(&format!("replay: fuzz target {} FAILS sig={} detail={}", target, v.sig, v.detail));
                ctx.say(&format!("VIOLATION property={} replay={}", id, path));
                ctx.cleanup();
                std::process::exit(1)
            }
        }
    }
    if let Some(path) = replay {
        let text = std::fs::read_to_string(&path).unwrap_or_else(|e| {
            ctx.say(&format!("cannot read replay file {}: {}", path, e));
            std::process::exit(2)
        });
        let v: serde_json::Value = serde_json::from_str(&text).unwrap_or_else(|e| {
            ctx.say(&format!("cannot parse replay file {}: {}", path, e));
            std::process::exit(2)
        });
        let part = v.get("part").and_then(|p| p.as_str()).unwrap_or("").to_string();
        let case = v.get("case").cloned().unwrap_or(serde_json::Value::Null);
        let ok = props::replay(&ctx, &id, &part, &case);
        ctx.cleanup();
        if ok {
            std::process::exit(0);
        }
        ctx.say(&format!("VIOLATION property={} replay={}", id, path));
        std::process::exit(1);
    }
    // replay tier: every committed regression case of this property is re-judged first
    let mut regress_failed = false;
    let mut regress_n = 0u64;
    if let Ok(rd) = std::fs::read_dir("/verif/replays/regress") {
        let mut files: Vec<_> = rd.filter_map(|e| e.ok()).map(|e| e.path()).filter(|p| p.file_name().and_then(|n| n.to_str()).map(|n| n.starts_with(&format!("{}-", id)) && n.ends_with(".json")).unwrap_or(false)).collect();
        files.sort();
        // saved libFuzzer inputs (<ID>-fuzz-<target>-<hash>.bin) are regression cases too
        if let Ok(rd) = std::fs::read_dir("/verif/replays/regress") {
            let mut bins: Vec<_> = rd.filter_map(|e| e.ok()).map(|e| e.path()).filter(|p| p.file_name().and_then(|n| n.to_str()).map(|n| n.starts_with(&format!("{}-fuzz-", id)) && n.ends_with(".bin")).unwrap_or(false)).collect();
            bins.sort();
            for path in bins {
                let name = path.file_name().and_then(|n| n.to_str()).unwrap_or("").to_string();
                let target = name.split('-').nth(2).unwrap_or("").to_string();
                let Ok(data) = std::fs::read(&path) else { continue };
                regress_n += 1;
                if let Err(v) = vh::fuzzglue::judge(&target, &data) {
                    ctx.say(&format!("  regression fuzz input {} FAILS sig={} detail={}", name, v.sig, v.detail));
                    ctx.say(&format!("VIOLATION property={} replay={}", id, path.display()));
                    regress_failed = true;
                }
            }
        }
        for path in files {
            let Ok(text) = std::fs::read_to_string(&path) else { continue };
            let Ok(v) = serde_json::from_str::<serde_json::Value>(&text) else { continue };
            let part = v.get("part").and_then(|p| p.as_str()).unwrap_or("").to_string();
            let case = v.get("case").cloned().unwrap_or(serde_json::Value::Null);
            regress_n += 1;
            if !props::replay(&ctx, &id, &part, &case) {
                ctx.say(&format!("VIOLATION property={} replay={}", id, path.display()));
                regress_failed = true;
            }
        }
    }
    ctx.extra("regression_replays", serde_json::json!(regress_n));
    if !props::run(&ctx, &id) {
        ctx.say(&format!("unknown property id {}", id));
        ctx.cleanup();
        std::process::exit(2);
    }
    let code = finish(&ctx);
    std::process::exit(if regress_failed { 1 } else { code });
}
