//! A conformant model TFTP client over real UDP, used by the wire properties.

use crate::refcodec::{self, RDec, ROpt, RPacket};
use crate::wire::Client;
use std::net::SocketAddr;
use std::time::Duration;

#[derive(Clone, Debug)]
pub struct Negotiated {
    pub blk: usize,
    pub ws: usize,
    pub peer: SocketAddr,
    pub oack: Option<Vec<(ROpt, u64)>>,
}

#[derive(Debug)]
pub enum Start {
    Refused { code: u16, msg: String, from: SocketAddr },
    Silent,
    Accepted { neg: Negotiated, first_data: Option<(u16, Vec<u8>)> },
    Weird(String),
}

pub fn request_bytes(write: bool, name: &str, opts: &[(String, String)]) -> Vec<u8> {
    let o: Vec<(Vec<u8>, Vec<u8>)> = opts.iter().map(|(n, v)| (n.as_bytes().to_vec(), v.as_bytes().to_vec())).collect();
    refcodec::encode_request_raw(write, name.as_bytes(), b"octet", &o)
}

pub fn start(cl: &Client, server: SocketAddr, write: bool, name: &str, opts: &[(String, String)], wait: Duration) -> Start {
    cl.send(&request_bytes(write, name, opts), server);
    let Some((b, from)) = cl.recv(wait) else { return Start::Silent };
    match refcodec::decode(&b) {
        RDec::Ok(RPacket::Error { code, msg }) => Start::Refused { code, msg, from },
        RDec::Ok(RPacket::Oack(list)) => {
            let mut blk = 512usize;
            let mut ws = 1usize;
            for (o, v) in &list {
                match o {
                    ROpt::Blksize => blk = *v as usize,
                    ROpt::Windowsize => ws = *v as usize,
                    _ => {}
                }
            }
            if blk == 0 || ws == 0 {
                return Start::Weird(format!("OACK with zero blksize/windowsize: {:?}", list));
            }
            if !write {
                cl.send(&refcodec::ack(0), from);
            }
            Start::Accepted {
                neg: Negotiated { blk, ws, peer: from, oack: Some(list) },
                first_data: None,
            }
        }
        RDec::Ok(RPacket::Data { block, data }) if !write => Start::Accepted {
            neg: Negotiated { blk: 512, ws: 1, peer: from, oack: None },
            first_data: Some((block, data)),
        },
        RDec::Ok(RPacket::Ack(0)) if write => Start::Accepted {
            neg: Negotiated { blk: 512, ws: 1, peer: from, oack: None },
            first_data: None,
        },
        other => Start::Weird(format!("unexpected first reply {:?} from {}", other, from)),
    }
}

/// Receive a whole file: in-order reassembly, ACK at window ends and on the short block.
/// `sources` collects the source address of every DATA datagram.
pub fn download(cl: &Client, neg: &Negotiated, first_data: Option<(u16, Vec<u8>)>, sources: &mut Vec<SocketAddr>) -> Result<Vec<u8>, String> {
    let mut got = vec![];
    let mut next: u64 = 1;
    let mut count = 0usize;
    let mut queue: Vec<(u16, Vec<u8>)> = first_data.into_iter().collect();
    let mut idle = 0;
    loop {
        let (block, data) = if let Some(x) = queue.pop() {
            x
        } else {
            match cl.recv(Duration::from_millis(1500)) {
                Some((b, from)) => match refcodec::decode(&b) {
                    RDec::Ok(RPacket::Data { block, data }) => {
                        sources.push(from);
                        idle = 0;
                        (block, data)
                    }
                    RDec::Ok(RPacket::Error { code, msg }) => return Err(format!("server sent ERROR {} {:?} during the download", code, msg)),
                    other => return Err(format!("unexpected datagram during the download: {:?}", other)),
                },
                None => {
                    idle += 1;
                    if idle > 3 {
                        return Err(format!("download stalled at block {} ({} bytes so far)", next, got.len()));
                    }
                    cl.send(&refcodec::ack(((next - 1) % 65536) as u16), neg.peer);
                    count = 0;
                    continue;
                }
            }
        };
        if block != (next % 65536) as u16 {
            continue;
        }
        got.extend_from_slice(&data);
        next += 1;
        count += 1;
        if data.len() < neg.blk {
            cl.send(&refcodec::ack(block), neg.peer);
            return Ok(got);
        }
        if data.len() > neg.blk {
            return Err(format!("DATA {} carries {} bytes, more than the negotiated blksize {}", block, data.len(), neg.blk));
        }
        if count == neg.ws {
            cl.send(&refcodec::ack(block), neg.peer);
            count = 0;
        }
    }
}

pub enum UploadEnd {
    Completed,
    /// the harness aborted with an ERROR after this many blocks
    Aborted(usize),
}

/// Send a whole file window by window. `abort_after`: send ERROR instead of block k+1.
pub fn upload(cl: &Client, neg: &Negotiated, data: &[u8], abort_after: Option<usize>, ack_sources: &mut Vec<SocketAddr>) -> Result<UploadEnd, String> {
    let n_blocks = data.len() / neg.blk + 1;
    let mut next = 1usize;
    while next <= n_blocks {
        let count = neg.ws.min(n_blocks + 1 - next);
        for i in 0..count {
            let abs = next + i;
            if let Some(k) = abort_after {
                if abs > k {
                    cl.send(&refcodec::error(0, "client gives up"), neg.peer);
                    return Ok(UploadEnd::Aborted(k));
                }
            }
            let s = (abs - 1) * neg.blk;
            let e = (s + neg.blk).min(data.len());
            cl.send(&refcodec::data((abs % 65536) as u16, &data[s..e]), neg.peer);
        }
        let last = next + count - 1;
        let mut tries = 0;
        loop {
            match cl.recv(Duration::from_millis(1500)) {
                Some((b, from)) => match refcodec::decode(&b) {
                    RDec::Ok(RPacket::Ack(k)) if k == (last % 65536) as u16 => {
                        ack_sources.push(from);
                        break;
                    }
                    RDec::Ok(RPacket::Ack(_)) => continue,
                    RDec::Ok(RPacket::Error { code, msg }) => return Err(format!("server sent ERROR {} {:?} during the upload (after block {})", code, msg, last)),
                    other => return Err(format!("unexpected datagram during the upload: {:?}", other)),
                },
                None => {
                    tries += 1;
                    if tries > 2 {
                        return Err(format!("no ACK {} for blocks {}..{}", last, next, last));
                    }
                    for i in 0..count {
                        let abs = next + i;
                        let s = (abs - 1) * neg.blk;
                        let e = (s + neg.blk).min(data.len());
                        cl.send(&refcodec::data((abs % 65536) as u16, &data[s..e]), neg.peer);
                    }
                }
            }
        }
        next += count;
    }
    Ok(UploadEnd::Completed)
}
