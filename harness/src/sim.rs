//! Engine `sim`: the real Worker::send_file / receive_file run against a
//! simulated socket. Everything the environment does (model peer, fault
//! network, adversarial script, virtual clock) happens inside the socket calls
//! on the worker thread, so a case is a pure function of (scenario, code).

use crate::common::content;
use crate::refcodec::{self, RDec, RPacket};
use serde::{Deserialize, Serialize};
use std::collections::VecDeque;
use std::error::Error;
use std::net::SocketAddr;
use std::path::{Path, PathBuf};
use std::sync::{Arc, Mutex};
use std::time::Duration;
use tftpd::{Packet, Socket, Worker};

#[derive(Clone, Copy, Debug, PartialEq, Eq, Serialize, Deserialize)]
pub enum Role {
    /// the worker sends a file (download from the server's point of view)
    Sender,
    /// the worker receives a file (upload)
    Receiver,
}

#[derive(Clone, Copy, Debug, PartialEq, Eq, Serialize, Deserialize)]
pub enum Fate {
    Deliver,
    Drop,
    Dup,
    /// held until the next datagram in the same direction has been delivered
    Swap,
    /// held until the worker has timed out once
    Late,
}

/// One scripted decision, taken each time the worker asks for a datagram.
#[derive(Clone, Debug, PartialEq, Eq, Serialize, Deserialize)]
pub enum Sev {
    /// deliver the next datagram the network holds for the worker (timeout if none)
    Pass,
    /// the worker times out although something may be in flight (delay)
    Hold,
    /// the next in-flight datagram is lost; the worker times out
    DropPending,
    /// set the virtual time that passes before the next delivery, in permille of the timeout
    At(u16),
    // --- towards a sending worker ---
    /// ACK of everything emitted so far
    AckFull,
    /// ACK of the j-th outstanding block (1-based), j < outstanding
    AckPartial(u16),
    /// ACK(last acknowledged - d): d = 0 duplicate, d > 0 stale
    AckDup(u16),
    /// ACK(highest emitted + j), j >= 1: acknowledges what was never sent
    AckFuture(u16),
    /// ACK with a raw wire number
    AckRaw(u16),
    // --- towards a receiving worker ---
    /// the true block (last accepted - d) again
    DataDup(u16),
    /// the true block (next expected + j), j >= 1, ahead of its turn
    DataFuture(u16),
    // --- either role ---
    Error(u16),
    /// a well-formed ERROR whose message has this many characters (longer than small receive buffers)
    ErrorLong(u16, u16),
    Garbage(#[serde(with = "crate::common::hexbytes")] Vec<u8>),
    Oack,
    StrayAck(u16),
    /// a DATA datagram towards a sender / an unrelated one
    StrayData(u16),
}

#[derive(Clone, Copy, Debug, PartialEq, Eq, Serialize, Deserialize)]
pub enum After {
    /// after the script the conformant peer carries on
    Honest,
    /// after the script the peer is gone
    Silent,
}

#[derive(Clone, Debug, Serialize, Deserialize)]
pub struct Scenario {
    pub role: Role,
    pub blk: usize,
    pub ws: u16,
    pub file_len: usize,
    pub seed: u64,
    pub repeat: u8,
    /// sender only: the transfer starts with an OACK that the peer answers (Worker::send(true))
    pub handshake: bool,
    pub clean: bool,
    pub fates: Vec<Fate>,
    /// emission index at which the fate list starts (datagrams before it are delivered)
    #[serde(default)]
    pub fates_at: usize,
    pub script: Vec<Sev>,
    pub after: After,
    /// model receiver acknowledges a gap at once (RFC 7440) instead of staying silent
    pub gap_ack: bool,
    /// model receiver keeps answering retransmissions of the final block
    pub dally: bool,
    /// receiver role: a file with other content already exists at the target path (overwrite)
    #[serde(default)]
    pub pre_existing: bool,
    /// receiver role: run under RLIMIT_FSIZE (writes beyond this offset fail); honoured by the judges that support it
    #[serde(default)]
    pub fsize_limit: Option<u64>,
    /// receiver role: the uploading peer does not dally - once it has seen its final block acknowledged its socket is closed
    /// and further datagrams sent to it are refused (ECONNREFUSED on a connected UDP socket)
    #[serde(default)]
    pub peer_leaves: bool,
    /// the negotiated retransmission interval handed to the worker, in seconds of virtual time
    #[serde(default = "default_timeout_s")]
    pub timeout_s: u16,
}

fn default_timeout_s() -> u16 {
    4
}

impl Scenario {
    pub fn lossless(role: Role, blk: usize, ws: u16, file_len: usize, seed: u64) -> Scenario {
        Scenario {
            role,
            blk,
            ws,
            file_len,
            seed,
            repeat: 1,
            handshake: false,
            clean: true,
            fates: vec![],
            fates_at: 0,
            script: vec![],
            after: After::Honest,
            gap_ack: true,
            dally: true,
            pre_existing: false,
            fsize_limit: None,
            peer_leaves: false,
            timeout_s: 4,
        }
    }
    pub fn timeout(&self) -> Duration {
        Duration::from_secs(self.timeout_s.max(1) as u64)
    }
    pub fn nblocks(&self) -> u64 {
        (self.file_len / self.blk) as u64 + 1
    }
    pub fn nfaults(&self) -> usize {
        self.fates.iter().filter(|f| **f != Fate::Deliver).count()
    }
}

pub const TIMEOUT: Duration = Duration::from_secs(4);

#[derive(Clone, Debug)]
pub enum Ev {
    Tx {
        t: Duration,
        bytes: Vec<u8>,
        /// receiver role, ACK emissions: state of the file on disk at this moment
        disk: Option<Disk>,
    },
    Rx {
        t: Duration,
        /// what the worker's receive buffer held (truncated to size + 4)
        bytes: Vec<u8>,
        /// what the peer put on the wire
        orig_len: usize,
        /// the datagram on the wire was a well-formed ERROR (even if truncation cut its terminator)
        wire_error: bool,
    },
    RxTimeout {
        t: Duration,
    },
}

#[derive(Clone, Debug)]
pub struct Disk {
    pub len: u64,
    /// file == acc[..len] (compared incrementally, full comparison at the end)
    pub is_prefix_of_acc: bool,
    pub acc_len: u64,
}

pub fn wire(abs: u64) -> u16 {
    (abs % 65536) as u16
}

// ---------------------------------------------------------------- model peers

pub struct ModelReceiver {
    pub blk: usize,
    pub ws: u16,
    pub next_abs: u64,
    pub count: u16,
    pub data: Vec<u8>,
    pub done: bool,
    pub aborted: bool,
    pub gap_ack: bool,
    pub dally: bool,
    gap_acked: bool,
    pub got_any: bool,
    /// number of times the same in-order block arrived again (diagnostics)
    pub dups_seen: u64,
}

impl ModelReceiver {
    pub fn new(blk: usize, ws: u16, gap_ack: bool, dally: bool) -> Self {
        ModelReceiver {
            blk,
            ws,
            next_abs: 1,
            count: 0,
            data: vec![],
            done: false,
            aborted: false,
            gap_ack,
            dally,
            gap_acked: false,
            got_any: false,
            dups_seen: 0,
        }
    }

    pub fn on_datagram(&mut self, bytes: &[u8]) -> Vec<Vec<u8>> {
        if self.aborted {
            return vec![];
        }
        match refcodec::decode(bytes) {
            RDec::Ok(RPacket::Data { block, data }) => {
                self.got_any = true;
                let want = wire(self.next_abs);
                let ahead = block.wrapping_sub(want); // 0 = in order
                if self.done {
                    // dallying: answer retransmissions of the final block
                    if self.dally && block == wire(self.next_abs - 1) {
                        return vec![refcodec::ack(block)];
                    }
                    return vec![];
                }
                if ahead == 0 {
                    self.gap_acked = false;
                    self.data.extend_from_slice(&data);
                    self.next_abs += 1;
                    self.count += 1;
                    if data.len() < self.blk {
                        self.done = true;
                        self.count = 0;
                        return vec![refcodec::ack(block)];
                    }
                    if self.count == self.ws {
                        self.count = 0;
                        return vec![refcodec::ack(block)];
                    }
                    vec![]
                } else if ahead < 32768 {
                    // gap: a block is missing
                    if self.gap_ack && !self.gap_acked {
                        self.gap_acked = true;
                        self.count = 0;
                        return vec![refcodec::ack(wire(self.next_abs - 1))];
                    }
                    vec![]
                } else {
                    // old block
                    self.dups_seen += 1;
                    if block == wire(self.next_abs - 1) && self.count == 0 {
                        // the sender did not see our last ACK: repeat it (once per retransmitted window)
                        return vec![refcodec::ack(block)];
                    }
                    vec![]
                }
            }
            RDec::Ok(RPacket::Error { .. }) => {
                self.aborted = true;
                vec![]
            }
            _ => vec![],
        }
    }

    /// the peer's own retransmission timer
    pub fn on_timer(&mut self) -> Vec<Vec<u8>> {
        if self.aborted || self.done {
            return vec![];
        }
        self.count = 0;
        self.gap_acked = false;
        vec![refcodec::ack(wire(self.next_abs - 1))]
    }
}

pub struct ModelSender {
    pub blk: usize,
    pub ws: u16,
    pub file: Vec<u8>,
    pub nblocks: u64,
    pub base: u64,
    pub hi: u64,
    pub done: bool,
    pub aborted: bool,
}

impl ModelSender {
    pub fn new(blk: usize, ws: u16, file: Vec<u8>) -> Self {
        let nblocks = (file.len() / blk) as u64 + 1;
        ModelSender {
            blk,
            ws,
            file,
            nblocks,
            base: 1,
            hi: 0,
            done: false,
            aborted: false,
        }
    }

    pub fn block(&self, abs: u64) -> Vec<u8> {
        let s = ((abs - 1) as usize) * self.blk;
        let e = (s + self.blk).min(self.file.len());
        refcodec::data(wire(abs), &self.file[s.min(self.file.len())..e])
    }

    fn window(&mut self) -> Vec<Vec<u8>> {
        let last = (self.base + self.ws as u64 - 1).min(self.nblocks);
        let mut out = vec![];
        for abs in self.base..=last {
            out.push(self.block(abs));
        }
        if last > self.hi {
            self.hi = last;
        }
        out
    }

    pub fn start(&mut self) -> Vec<Vec<u8>> {
        self.window()
    }

    pub fn on_datagram(&mut self, bytes: &[u8]) -> Vec<Vec<u8>> {
        if self.aborted || self.done {
            return vec![];
        }
        match refcodec::decode(bytes) {
            RDec::Ok(RPacket::Ack(n)) => {
                let d = n.wrapping_sub(wire(self.base)) as u64;
                let outstanding = self.hi + 1 - self.base;
                if d < outstanding {
                    self.base += d + 1;
                    if self.base > self.nblocks {
                        self.done = true;
                        return vec![];
                    }
                    return self.window();
                }
                vec![]
            }
            RDec::Ok(RPacket::Error { .. }) => {
                self.aborted = true;
                vec![]
            }
            _ => vec![],
        }
    }

    pub fn on_timer(&mut self) -> Vec<Vec<u8>> {
        if self.aborted || self.done {
            return vec![];
        }
        self.window()
    }
}

pub enum Peer {
    Rx(ModelReceiver),
    Tx(ModelSender),
}

impl Peer {
    fn on_datagram(&mut self, b: &[u8]) -> Vec<Vec<u8>> {
        match self {
            Peer::Rx(p) => p.on_datagram(b),
            Peer::Tx(p) => p.on_datagram(b),
        }
    }
    fn on_timer(&mut self) -> Vec<Vec<u8>> {
        match self {
            Peer::Rx(p) => p.on_timer(),
            Peer::Tx(p) => p.on_timer(),
        }
    }
}

// ---------------------------------------------------------------- network

#[derive(Clone, Copy, PartialEq, Eq, Debug)]
pub enum Dir {
    ToPeer = 0,
    ToWorker = 1,
}

pub struct Net {
    fates: Vec<Fate>,
    fates_at: usize,
    next: usize,
    swap_hold: [Option<Vec<u8>>; 2],
    late_hold: [Vec<Vec<u8>>; 2],
    /// faults that actually hit a datagram: (emission index, fate, direction, first 4 bytes)
    pub hits: Vec<(usize, Fate, Dir, Vec<u8>)>,
    pub emissions: usize,
}

impl Net {
    fn new(fates: Vec<Fate>, fates_at: usize) -> Net {
        Net {
            fates,
            fates_at,
            next: 0,
            swap_hold: [None, None],
            late_hold: [vec![], vec![]],
            hits: vec![],
            emissions: 0,
        }
    }

    fn route(&mut self, dir: Dir, bytes: Vec<u8>) -> Vec<Vec<u8>> {
        let fate = if self.next >= self.fates_at { self.fates.get(self.next - self.fates_at).copied().unwrap_or(Fate::Deliver) } else { Fate::Deliver };
        let idx = self.next;
        self.next += 1;
        self.emissions += 1;
        let d = dir as usize;
        if fate != Fate::Deliver {
            self.hits.push((idx, fate, dir, bytes.iter().take(4).cloned().collect()));
        }
        let mut out = vec![];
        match fate {
            Fate::Deliver => out.push(bytes),
            Fate::Drop => {}
            Fate::Dup => {
                out.push(bytes.clone());
                out.push(bytes);
            }
            Fate::Swap => {
                if self.swap_hold[d].is_some() {
                    out.push(bytes);
                } else {
                    self.swap_hold[d] = Some(bytes);
                    return out;
                }
            }
            Fate::Late => {
                self.late_hold[d].push(bytes);
                return out;
            }
        }
        if !out.is_empty() {
            if let Some(h) = self.swap_hold[d].take() {
                out.push(h);
            }
        }
        out
    }

    fn release(&mut self, dir: Dir) -> Vec<Vec<u8>> {
        let d = dir as usize;
        let mut out = vec![];
        if let Some(h) = self.swap_hold[d].take() {
            out.push(h);
        }
        out.append(&mut self.late_hold[d]);
        out
    }
}

// ---------------------------------------------------------------- environment

pub struct Env {
    pub sc: Scenario,
    pub peer: Peer,
    pub net: Net,
    pub inbox: VecDeque<Vec<u8>>,
    script_pos: usize,
    next_dt: Duration,
    /// what the worker (sender) has emitted / been told, for relative script events
    pub hi_emitted: u64,
    pub acked: u64,
    /// receiver role: number of blocks delivered in sequence so far
    pub rx_next: u64,
    pub file: Vec<u8>,
    pub script_used: Vec<String>,
    pub forced_timeouts: u64,
}

impl Env {
    pub fn new(sc: &Scenario, file: Vec<u8>) -> Env {
        let mut env = Env {
            sc: sc.clone(),
            peer: match sc.role {
                Role::Sender => Peer::Rx(ModelReceiver::new(sc.blk, sc.ws, sc.gap_ack, sc.dally)),
                Role::Receiver => Peer::Tx(ModelSender::new(sc.blk, sc.ws, file.clone())),
            },
            net: Net::new(sc.fates.clone(), sc.fates_at),
            inbox: VecDeque::new(),
            script_pos: 0,
            next_dt: Duration::from_millis(1),
            hi_emitted: 0,
            acked: 0,
            rx_next: 1,
            file,
            script_used: vec![],
            forced_timeouts: 0,
        };
        match sc.role {
            Role::Sender => {
                if sc.handshake {
                    // the peer's answer to the OACK; the handshake is never faulted
                    env.inbox.push_back(refcodec::ack(0));
                }
            }
            Role::Receiver => {
                // the request/ACK0 exchange happened before the worker exists: the first window is on its way
                let first = match &mut env.peer {
                    Peer::Tx(p) => p.start(),
                    _ => unreachable!(),
                };
                for d in first {
                    for x in env.net.route(Dir::ToWorker, d) {
                        env.inbox.push_back(x);
                    }
                }
            }
        }
        env
    }

    fn to_peer(&mut self, bytes: Vec<u8>) {
        for d in self.net.route(Dir::ToPeer, bytes) {
            self.peer_gets(d);
        }
    }

    fn peer_gets(&mut self, d: Vec<u8>) {
        let responses = self.peer.on_datagram(&d);
        for r in responses {
            for x in self.net.route(Dir::ToWorker, r) {
                self.inbox.push_back(x);
            }
        }
    }

    fn on_worker_timeout(&mut self) {
        for d in self.net.release(Dir::ToPeer) {
            self.peer_gets(d);
        }
        for d in self.net.release(Dir::ToWorker) {
            self.inbox.push_back(d);
        }
        // the peer is idle as well: its retransmission timer fires
        let rs = self.peer.on_timer();
        for r in rs {
            for x in self.net.route(Dir::ToWorker, r) {
                self.inbox.push_back(x);
            }
        }
    }

    pub fn on_send(&mut self, bytes: &[u8]) {
        if let RDec::Ok(RPacket::Data { block, .. }) = refcodec::decode(bytes) {
            // absolute index of an emitted block: nearest candidate at or above `acked + 1`
            let base = self.acked + 1;
            let abs = base + block.wrapping_sub(wire(base)) as u64;
            if abs > self.hi_emitted && abs < base + 65536 {
                self.hi_emitted = abs;
            }
        }
        self.to_peer(bytes.to_vec());
    }

    fn note_delivery(&mut self, bytes: &[u8]) {
        match self.sc.role {
            Role::Sender => {
                if let RDec::Ok(RPacket::Ack(n)) = refcodec::decode(bytes) {
                    let base = self.acked + 1;
                    let d = n.wrapping_sub(wire(base)) as u64;
                    if self.hi_emitted >= base && d < self.hi_emitted + 1 - base {
                        self.acked = base + d;
                    }
                }
            }
            Role::Receiver => {
                if let RDec::Ok(RPacket::Data { block, .. }) = refcodec::decode(bytes) {
                    if block == wire(self.rx_next) {
                        self.rx_next += 1;
                    }
                }
            }
        }
    }

    fn true_block(&self, abs: u64) -> Option<Vec<u8>> {
        let n = (self.file.len() / self.sc.blk) as u64 + 1;
        if abs == 0 || abs > n {
            return None;
        }
        let s = ((abs - 1) as usize) * self.sc.blk;
        let e = (s + self.sc.blk).min(self.file.len());
        Some(refcodec::data(wire(abs), &self.file[s..e]))
    }

    /// Decide what the worker receives now. None = read timeout.
    pub fn on_recv(&mut self) -> Option<(Duration, Vec<u8>)> {
        loop {
            let ev = if self.script_pos < self.sc.script.len() {
                let e = self.sc.script[self.script_pos].clone();
                self.script_pos += 1;
                e
            } else {
                match self.sc.after {
                    After::Honest => Sev::Pass,
                    After::Silent => {
                        // the peer is gone: nothing arrives any more, no timer runs
                        self.forced_timeouts += 1;
                        return None;
                    }
                }
            };
            let injected: Option<Vec<u8>> = match &ev {
                Sev::At(permille) => {
                    self.next_dt = self.sc.timeout() * (*permille as u32).min(1000) / 1000;
                    continue;
                }
                Sev::Pass => match self.inbox.pop_front() {
                    Some(b) => Some(b),
                    None => {
                        self.on_worker_timeout();
                        return None;
                    }
                },
                Sev::Hold => {
                    // a delay: the worker times out, the peer's timer runs
                    self.forced_timeouts += 1;
                    self.on_worker_timeout();
                    return None;
                }
                Sev::DropPending => {
                    self.inbox.pop_front();
                    self.forced_timeouts += 1;
                    self.on_worker_timeout();
                    return None;
                }
                Sev::AckFull => Some(refcodec::ack(wire(self.hi_emitted))),
                Sev::AckPartial(j) => {
                    let outstanding = self.hi_emitted.saturating_sub(self.acked);
                    if outstanding >= 2 {
                        let j = 1 + (*j as u64 % (outstanding - 1));
                        Some(refcodec::ack(wire(self.acked + j)))
                    } else {
                        Some(refcodec::ack(wire(self.hi_emitted)))
                    }
                }
                Sev::AckDup(d) => {
                    // never alias an outstanding block: only generated within 32767 behind
                    let outstanding = self.hi_emitted.saturating_sub(self.acked);
                    let d = (*d as u64).min(32767).min(65535u64.saturating_sub(outstanding));
                    Some(refcodec::ack(wire((self.acked + 65536 * 2 - d) % 65536)))
                }
                Sev::AckFuture(j) => Some(refcodec::ack(wire(self.hi_emitted + 1 + (*j as u64 % 32000)))),
                Sev::AckRaw(n) => Some(refcodec::ack(*n)),
                Sev::DataDup(d) => {
                    let last = self.rx_next - 1;
                    let abs = last.saturating_sub(*d as u64 % 1000);
                    match self.true_block(abs) {
                        Some(b) => Some(b),
                        None => continue,
                    }
                }
                Sev::DataFuture(j) => match self.true_block(self.rx_next + 1 + (*j as u64 % 1000)) {
                    Some(b) => Some(b),
                    None => continue,
                },
                Sev::Error(code) => Some(refcodec::error(*code % 8, "injected")),
                Sev::ErrorLong(code, n) => {
                    // n characters; for odd n a mixture of 1-, 2- and 3-byte characters so that byte offsets fall inside characters;
                    // n = 4k+2: a Latin-1 text (not valid UTF-8), as old clients send it
                    let n = (*n as usize).min(2000);
                    if n % 4 == 2 {
                        let mut b = vec![0, 5, 0, (*code % 8) as u8];
                        b.extend_from_slice(b"Datentr\xe4ger voll ");
                        b.extend(std::iter::repeat(b'x').take(n));
                        b.push(0);
                        Some(b)
                    } else {
                        let msg: String = if n % 2 == 0 {
                            "e".repeat(n)
                        } else {
                            (0..n).map(|i| if (i + n / 2) % 3 == 0 { '\u{e9}' } else if i % 5 == 0 { '\u{65e5}' } else { 'e' }).collect()
                        };
                        Some(refcodec::error(*code % 8, &msg))
                    }
                }
                Sev::Garbage(g) => Some(g.clone()),
                Sev::Oack => Some(vec![0, 6, b'b', b'l', b'k', b's', b'i', b'z', b'e', 0, b'8', 0]),
                Sev::StrayAck(n) => Some(refcodec::ack(*n)),
                Sev::StrayData(n) => Some(refcodec::data(*n, b"stray")),
            };
            if let Some(b) = injected {
                if self.script_used.len() < 64 && !matches!(ev, Sev::Pass) {
                    self.script_used.push(format!("{:?}", ev));
                }
                self.note_delivery(&b);
                let dt = self.next_dt;
                self.next_dt = Duration::from_millis(1);
                return Some((dt, b));
            }
        }
    }

    /// after the worker thread has ended: everything still in flight arrives
    pub fn drain(&mut self) {
        for _ in 0..3 {
            for d in self.net.release(Dir::ToPeer) {
                self.peer_gets(d);
            }
        }
    }
}

// ---------------------------------------------------------------- socket

pub struct SimState {
    pub env: Env,
    pub trace: Vec<Ev>,
    pub recv_calls: u64,
    pub cap: u64,
    pub cap_hit: bool,
    // receiver-role disk oracle
    pub file_path: Option<PathBuf>,
    pub acc: Vec<u8>,
    pub acc_blocks: u64,
    pub final_seen: bool,
    verified_upto: usize,
    blk: usize,
    sends_after_peer_left: u32,
}

pub struct SimSocket {
    st: Arc<Mutex<SimState>>,
}

fn lock(st: &Arc<Mutex<SimState>>) -> std::sync::MutexGuard<'_, SimState> {
    st.lock().unwrap_or_else(|e| e.into_inner())
}

impl SimState {
    fn disk_check(&mut self) -> Option<Disk> {
        let path = self.file_path.as_ref()?;
        let len = std::fs::metadata(path).map(|m| m.len()).unwrap_or(0);
        let mut ok = len as usize <= self.acc.len();
        if ok && (len as usize) > self.verified_upto {
            use std::io::{Read, Seek, SeekFrom};
            match std::fs::File::open(path) {
                Ok(mut f) => {
                    let mut buf = vec![0u8; len as usize - self.verified_upto];
                    if f.seek(SeekFrom::Start(self.verified_upto as u64)).is_err() || f.read_exact(&mut buf).is_err() {
                        ok = false;
                    } else if buf != self.acc[self.verified_upto..len as usize] {
                        ok = false;
                    } else {
                        self.verified_upto = len as usize;
                    }
                }
                Err(_) => ok = false,
            }
        }
        Some(Disk {
            len,
            is_prefix_of_acc: ok,
            acc_len: self.acc.len() as u64,
        })
    }
}

impl Socket for SimSocket {
    fn send(&self, packet: &Packet) -> Result<(), Box<dyn Error>> {
        let bytes = packet.serialize()?;
        let mut st = lock(&self.st);
        if st.env.sc.peer_leaves {
            if let Peer::Tx(p) = &st.env.peer {
                if p.done {
                    // the datagram was emitted (it counts for the multiplicity predicates) but the peer's port is closed:
                    // the first such datagram only provokes the ICMP error, every later send on the connected socket fails
                    let t = tftpd::verif::virtual_now();
                    st.trace.push(Ev::Tx { t, bytes, disk: None });
                    st.sends_after_peer_left += 1;
                    if st.sends_after_peer_left >= 2 {
                        return Err("simulated ECONNREFUSED: the peer has closed its socket".into());
                    }
                    return Ok(());
                }
            }
        }
        let t = tftpd::verif::virtual_now();
        let disk = if bytes.len() >= 2 && bytes[1] == 4 { st.disk_check() } else { None };
        st.trace.push(Ev::Tx {
            t,
            bytes: bytes.clone(),
            disk,
        });
        st.env.on_send(&bytes);
        Ok(())
    }

    fn send_to(&self, packet: &Packet, _to: &SocketAddr) -> Result<(), Box<dyn Error>> {
        self.send(packet)
    }

    fn recv_with_size(&self, size: usize) -> Result<Packet, Box<dyn Error>> {
        let mut st = lock(&self.st);
        st.recv_calls += 1;
        if st.recv_calls > st.cap {
            st.cap_hit = true;
            drop(st);
            panic!("sim: receive cap exceeded (transfer does not terminate)");
        }
        let timeout = st.env.sc.timeout();
        match st.env.on_recv() {
            None => {
                tftpd::verif::advance(timeout);
                let t = tftpd::verif::virtual_now();
                st.trace.push(Ev::RxTimeout { t });
                Err("simulated timeout".into())
            }
            Some((dt, mut bytes)) => {
                tftpd::verif::advance(dt);
                let t = tftpd::verif::virtual_now();
                let orig_len = bytes.len();
                // an ERROR on the wire is an ERROR whatever the encoding of its message (known code, full header)
                let wire_error = bytes.len() >= 4 && bytes[0] == 0 && bytes[1] == 5 && bytes[2] == 0 && bytes[3] <= 7;
                // exactly what a UDP socket read into a buffer of size + 4 bytes returns
                bytes.truncate(size + 4);
                // the protocol's accept rule, for the disk oracle
                if let RDec::Ok(RPacket::Data { block, data }) = refcodec::decode(&bytes) {
                    if !st.final_seen && block == wire(st.acc_blocks + 1) && st.file_path.is_some() {
                        st.acc_blocks += 1;
                        st.acc.extend_from_slice(&data);
                        if data.len() < st.blk {
                            st.final_seen = true;
                        }
                    }
                }
                st.trace.push(Ev::Rx { t, bytes: bytes.clone(), orig_len, wire_error });
                drop(st);
                Ok(Packet::deserialize(&bytes)?)
            }
        }
    }

    fn recv_from_with_size(&self, size: usize) -> Result<(Packet, SocketAddr), Box<dyn Error>> {
        Ok((self.recv_with_size(size)?, self.remote_addr()?))
    }

    fn remote_addr(&self) -> Result<SocketAddr, Box<dyn Error>> {
        Ok("127.0.0.1:9".parse().unwrap())
    }

    fn set_read_timeout(&mut self, _dur: Duration) -> Result<(), Box<dyn Error>> {
        Ok(())
    }

    fn set_write_timeout(&mut self, _dur: Duration) -> Result<(), Box<dyn Error>> {
        Ok(())
    }
}

pub struct SimResult {
    pub trace: Vec<Ev>,
    pub cap_hit: bool,
    pub worker_panicked: bool,
    pub recv_calls: u64,
    /// file as found after the worker ended (receiver role); None = absent
    pub file_after: Option<Vec<u8>>,
    pub file: Vec<u8>,
    /// data reassembled by the model receiver, whether it completed
    pub peer_data: Vec<u8>,
    pub peer_done: bool,
    pub peer_aborted: bool,
    pub hits: Vec<(usize, Fate, Dir, Vec<u8>)>,
    pub emissions: usize,
    pub script_used: Vec<String>,
    pub forced_timeouts: u64,
    pub acc: Vec<u8>,
}

pub fn init() {
    tftpd::verif::set_virtual(true);
}

/// Run one scenario against the real worker. `dir` is a private scratch directory.
pub fn run(sc: &Scenario, dir: &Path) -> SimResult {
    let file = content(sc.seed, sc.file_len);
    let path = dir.join(format!("sim-{:?}.bin", std::thread::current().id()).replace(['(', ')'], ""));
    let _ = std::fs::remove_file(&path);
    if sc.role == Role::Sender {
        std::fs::write(&path, &file).expect("write source file");
    } else if sc.pre_existing {
        // (under a file-size limit only an empty old file can be created)
        if std::fs::write(&path, b"content of an older upload that is being overwritten, longer than most test files ........").is_err() {
            let _ = std::fs::File::create(&path);
        }
    }
    let nblocks = sc.nblocks();
    let cap = 64 * (nblocks + sc.script.len() as u64 + sc.fates.len() as u64 + 64);
    let st = Arc::new(Mutex::new(SimState {
        env: Env::new(sc, file.clone()),
        trace: vec![],
        recv_calls: 0,
        cap,
        cap_hit: false,
        file_path: if sc.role == Role::Receiver { Some(path.clone()) } else { None },
        acc: vec![],
        acc_blocks: 0,
        final_seen: false,
        verified_upto: 0,
        blk: sc.blk,
        sends_after_peer_left: 0,
    }));
    let sock: Box<SimSocket> = Box::new(SimSocket { st: st.clone() });
    let worker = Worker::new(sock, path.clone(), sc.clean, sc.blk, sc.timeout(), sc.ws, sc.repeat);
    let handle = match sc.role {
        Role::Sender => worker.send(sc.handshake),
        Role::Receiver => worker.receive(),
    }
    .expect("spawn worker");
    let joined = handle.join();
    let mut g = lock(&st);
    g.env.drain();
    let file_after = if sc.role == Role::Receiver { std::fs::read(&path).ok() } else { None };
    let _ = std::fs::remove_file(&path);
    let (peer_data, peer_done, peer_aborted) = match &g.env.peer {
        Peer::Rx(p) => (p.data.clone(), p.done, p.aborted),
        Peer::Tx(p) => (vec![], p.done, p.aborted),
    };
    SimResult {
        trace: std::mem::take(&mut g.trace),
        cap_hit: g.cap_hit,
        worker_panicked: joined.is_err() && !g.cap_hit,
        recv_calls: g.recv_calls,
        file_after,
        file,
        peer_data,
        peer_done,
        peer_aborted,
        hits: g.env.net.hits.clone(),
        emissions: g.env.net.emissions,
        script_used: g.env.script_used.clone(),
        forced_timeouts: g.env.forced_timeouts,
        acc: std::mem::take(&mut g.acc),
    }
}
