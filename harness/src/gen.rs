//! Shared proptest strategies.

use crate::refcodec::{ROpt, RPacket};
use proptest::prelude::*;

/// strings without NUL: empty, ASCII path-like, arbitrary Unicode, 500+ bytes
pub fn tftp_string() -> BoxedStrategy<String> {
    prop_oneof![
        1 => Just(String::new()),
        5 => "[a-zA-Z0-9._/\\\\ -]{1,24}",
        3 => proptest::collection::vec(any::<char>().prop_filter("no NUL", |c| *c != '\0'), 1..24)
            .prop_map(|v| v.into_iter().collect::<String>()),
        1 => "[a-z]{500,700}",
        // long strings with a multi-byte character at / around typical cap lengths (64, 128, 256, 512 bytes)
        2 => (prop_oneof![
                1 => 0usize..=520,
                1 => prop::sample::select(vec![60usize, 61, 62, 63, 64, 124, 125, 126, 127, 128, 252, 253, 254, 255, 256, 508, 509, 510, 511, 512]),
            ],
            prop::sample::select(vec!['\u{e9}', '\u{20ac}', '\u{1f600}', '\u{212a}', '\u{7f}', '\u{80}']),
            "[a-z\u{e9}\u{20ac}]{0,40}")
            .prop_map(|(pad, ch, tail)| format!("{}{}{}", "a".repeat(pad), ch, tail)),
        1 => Just("octet".to_string()),
        1 => Just("netascii".to_string()),
    ]
    .boxed()
}

pub fn opt_value() -> BoxedStrategy<u64> {
    prop_oneof![
        4 => prop::sample::select(vec![
            0u64, 1, 7, 8, 9, 255, 256, 511, 512, 513, 1428, 65463, 65464, 65465, 65535, 65536,
            1 << 31, 1 << 32, (1 << 32) + 1, 1 << 63, u64::MAX - 1, u64::MAX
        ]),
        2 => 0u64..100_000,
        1 => any::<u64>(),
    ]
    .boxed()
}

pub fn ropt() -> BoxedStrategy<ROpt> {
    prop::sample::select(ROpt::ALL.to_vec()).boxed()
}

pub fn options() -> BoxedStrategy<Vec<(ROpt, u64)>> {
    // mostly short lists; now and then far more pairs than there are option kinds (repeats are legal on the wire)
    prop_oneof![
        8 => proptest::collection::vec((ropt(), opt_value()), 0..=6),
        2 => proptest::collection::vec((ropt(), opt_value()), 7..=40),
    ]
    .boxed()
}

pub fn block_number() -> BoxedStrategy<u16> {
    prop_oneof![
        3 => prop::sample::select(vec![0u16, 1, 2, 255, 256, 32767, 32768, 65534, 65535]),
        3 => any::<u16>(),
    ]
    .boxed()
}

pub fn payload(max: usize) -> BoxedStrategy<Vec<u8>> {
    prop_oneof![
        2 => Just(vec![]),
        6 => proptest::collection::vec(any::<u8>(), 0..64),
        3 => proptest::collection::vec(any::<u8>(), 500..520),
        1 => (any::<u8>(), 0..=max).prop_map(|(b, n)| vec![b; n]),
        1 => (any::<u8>(), Just(max)).prop_map(|(b, n)| vec![b; n]),
    ]
    .boxed()
}

pub fn rpacket() -> BoxedStrategy<RPacket> {
    prop_oneof![
        (tftp_string(), tftp_string(), options()).prop_map(|(filename, mode, options)| RPacket::Rrq {
            filename,
            mode,
            options
        }),
        (tftp_string(), tftp_string(), options()).prop_map(|(filename, mode, options)| RPacket::Wrq {
            filename,
            mode,
            options
        }),
        (block_number(), payload(65464)).prop_map(|(block, data)| RPacket::Data { block, data }),
        block_number().prop_map(RPacket::Ack),
        (0u16..=7, tftp_string()).prop_map(|(code, msg)| RPacket::Error { code, msg }),
        options().prop_map(RPacket::Oack),
    ]
    .boxed()
}
