//! Trace predicates (DESIGN.md section 3). They are derived from the trace and
//! the delivered history only; no second implementation of the worker is
//! compared datagram-for-datagram.

use crate::refcodec::{self, RDec, RPacket};
use crate::sim::{wire, Ev, Role, Scenario, SimResult};
use std::time::Duration;

#[derive(Clone, Debug)]
pub struct Finding {
    pub pred: &'static str,
    pub detail: String,
}

#[derive(Clone, Debug, Default)]
pub struct Facts {
    pub role_sender: bool,
    /// sender: final block acknowledged; receiver: final block received and acknowledged
    pub completed: bool,
    pub ended_cleanly: bool,
    pub bursts: u64,
    pub retransmitted_blocks: u64,
    pub adv_acks: u64,
    pub partial_acks: u64,
    pub partial_after_eof: u64,
    pub stale_acks: u64,
    pub dup_acks: u64,
    pub future_acks: u64,
    pub timeouts: u64,
    pub noise: u64,
    pub peer_error: bool,
    pub error_at_handshake: bool,
    /// failed receive attempts (timeout/undecodable/irrelevant) within one window, maximum
    pub max_failed_per_window: u64,
    /// receiver role: longest run of failed receive attempts (timeout or unusable datagram) not interrupted by an
    /// accepted in-order block - the literal reading of "consecutive"; sender role: same as max_failed_per_window
    pub max_consecutive_failed: u64,
    pub crossed_wrap: bool,
    pub near_timeout_bursts: u64,
    pub data_dups_delivered: u64,
    pub data_gaps_delivered: u64,
    pub accepted_blocks: u64,
    pub acks_emitted: u64,
    pub events_after_end: u64,
    pub shape: u64,
}

fn f(pred: &'static str, detail: String) -> Finding {
    Finding { pred, detail }
}

fn slice_of(file: &[u8], abs: u64, blk: usize) -> &[u8] {
    let s = ((abs - 1) as usize).saturating_mul(blk).min(file.len());
    let e = (s + blk).min(file.len());
    &file[s..e]
}

fn mix(h: &mut u64, x: u64) {
    *h = (*h ^ x).wrapping_mul(0x100000001b3).rotate_left(7);
}

pub fn analyze(sc: &Scenario, r: &SimResult) -> (Vec<Finding>, Facts) {
    match sc.role {
        Role::Sender => analyze_sender(sc, r),
        Role::Receiver => analyze_receiver(sc, r),
    }
}

fn analyze_sender(sc: &Scenario, r: &SimResult) -> (Vec<Finding>, Facts) {
    #[allow(non_snake_case)]
    let TIMEOUT = sc.timeout();
    let mut out = vec![];
    let mut fa = Facts {
        role_sender: true,
        ..Facts::default()
    };
    let n = sc.nblocks();
    let blk = sc.blk;
    let ws = sc.ws as u64;
    let mut base: u64 = 1;
    let mut hi: u64 = 0;
    let mut handshake_pending = sc.handshake;
    let mut last_burst_t: Option<Duration> = None;
    let mut prev_adv = true; // nothing sent yet: the first burst needs no justification
    let mut in_burst = false;
    let mut burst_t = Duration::ZERO;
    let mut burst_prev_num: Option<u16> = None;
    let mut burst_prev_bytes: Option<Vec<u8>> = None;
    let mut burst_justified_adv = false;
    let mut run_len: u8 = 0;
    let mut done_at: Option<usize> = None;
    let mut error_at: Option<usize> = None;
    let mut failed_in_window: u64 = 0;
    let mut last_rx_was_stale_ack = false;
    let mut once = std::collections::HashSet::new();
    let mut shape: u64 = 0xcbf29ce484222325;
    let mut push = |out: &mut Vec<Finding>, pred: &'static str, detail: String| {
        if once.insert(pred) {
            out.push(f(pred, detail));
        }
    };

    let close_run = |out: &mut Vec<Finding>, run_len: u8, push: &mut dyn FnMut(&mut Vec<Finding>, &'static str, String), i: usize| {
        if run_len != 0 && run_len != sc.repeat {
            push(out, "S9", format!("a datagram was emitted {} time(s) back to back before event {}, expected {}", run_len, i, sc.repeat));
        }
    };

    for (i, ev) in r.trace.iter().enumerate() {
        if done_at.is_some() || error_at.is_some() {
            fa.events_after_end += 1;
        }
        match ev {
            Ev::Tx { t, bytes, .. } => {
                if let Some(d) = done_at {
                    push(&mut out, "S6", format!("datagram {} emitted at event {} after the final block was acknowledged at event {}", crate::common::hex(&bytes[..bytes.len().min(8)]), i, d));
                }
                if let Some(e) = error_at {
                    push(&mut out, "S7", format!("datagram {} emitted at event {} after the peer's ERROR at event {}", crate::common::hex(&bytes[..bytes.len().min(8)]), i, e));
                }
                let dec = refcodec::decode(bytes);
                let RDec::Ok(RPacket::Data { block, data }) = dec else {
                    continue;
                };
                last_rx_was_stale_ack = false;
                if !in_burst {
                    in_burst = true;
                    burst_t = *t;
                    burst_prev_num = None;
                    burst_prev_bytes = None;
                    burst_justified_adv = prev_adv;
                    run_len = 0;
                    fa.bursts += 1;
                    mix(&mut shape, 1);
                    if let Some(lt) = last_burst_t {
                        let el = t.saturating_sub(lt);
                        if el >= TIMEOUT && el < TIMEOUT + Duration::from_millis(5) || (el < TIMEOUT && el + Duration::from_millis(5) >= TIMEOUT) {
                            fa.near_timeout_bursts += 1;
                        }
                    }
                }
                // copies in duplicate-packets mode
                if burst_prev_bytes.as_deref() == Some(bytes.as_slice()) {
                    run_len = run_len.saturating_add(1);
                    continue;
                }
                close_run(&mut out, run_len, &mut push, i);
                run_len = 1;
                let abs = base + block.wrapping_sub(wire(base)) as u64;
                if abs > 65535 {
                    fa.crossed_wrap = true;
                }
                // S4: ascending inside a burst, resuming right after the acknowledged block
                match burst_prev_num {
                    None => {
                        if burst_justified_adv && block != wire(base) {
                            push(&mut out, "S4", format!("after the acknowledgement of block {} transmission resumed at block {} instead of {}", wire(base - 1), block, wire(base)));
                        }
                    }
                    Some(p) => {
                        if block != p.wrapping_add(1) {
                            push(&mut out, "S4", format!("burst at event {} is not consecutive: block {} follows {}", i, block, p));
                        }
                    }
                }
                burst_prev_num = Some(block);
                burst_prev_bytes = Some(bytes.clone());
                // S2 / S1
                if abs > n {
                    push(&mut out, "S2", format!("DATA {} (absolute block {}) emitted at event {}, but the file's final block is {} ({} bytes, blksize {})", block, abs, i, n, sc.file_len, blk));
                } else if data.as_slice() != slice_of(&r.file, abs, blk) {
                    push(&mut out, "S1", format!("DATA {} (absolute block {}) at event {} carries {} bytes {} instead of file[{}..] = {}", block, abs, i, data.len(), crate::common::hex(&data[..data.len().min(16)]), (abs - 1) as usize * blk, crate::common::hex(&slice_of(&r.file, abs, blk)[..slice_of(&r.file, abs, blk).len().min(16)])));
                }
                // S3
                if abs > base + ws - 1 {
                    push(&mut out, "S3", format!("DATA {} (absolute {}) emitted with first unacknowledged block {} and windowsize {}", block, abs, base, ws));
                }
                // S5: re-emission needs a reason
                if abs <= hi {
                    fa.retransmitted_blocks += 1;
                    let elapsed_ok = last_burst_t.map(|lt| burst_t.saturating_sub(lt) >= TIMEOUT).unwrap_or(true);
                    if !burst_justified_adv && !elapsed_ok {
                        push(&mut out, "S5", format!("block {} (absolute {}) re-sent at event {} only {:?} after the previous transmission (timeout {:?}) and not in answer to an advancing acknowledgement", block, abs, i, burst_t.saturating_sub(last_burst_t.unwrap_or_default()), TIMEOUT));
                    }
                } else if abs <= n {
                    hi = abs;
                }
            }
            Ev::Rx { bytes, wire_error, .. } => {
                if in_burst {
                    close_run(&mut out, run_len, &mut push, i);
                    in_burst = false;
                    last_burst_t = Some(burst_t);
                }
                if done_at.is_some() {
                    push(&mut out, "S6", format!("the worker kept receiving (event {}) after the final block was acknowledged", i));
                }
                if error_at.is_some() {
                    push(&mut out, "S7", format!("the worker kept receiving (event {}) after the peer's ERROR", i));
                }
                prev_adv = false;
                last_rx_was_stale_ack = false;
                let dec = if *wire_error { RDec::Ok(RPacket::Error { code: 0, msg: String::new() }) } else { refcodec::decode(bytes) };
                match dec {
                    RDec::Ok(RPacket::Ack(k)) => {
                        if handshake_pending {
                            handshake_pending = false;
                            prev_adv = true;
                            continue;
                        }
                        let d = k.wrapping_sub(wire(base)) as u64;
                        let outstanding = hi + 1 - base;
                        if d < outstanding {
                            fa.adv_acks += 1;
                            mix(&mut shape, 2 + d);
                            if d + 1 < outstanding {
                                fa.partial_acks += 1;
                                if hi == n {
                                    fa.partial_after_eof += 1;
                                }
                            }
                            base += d + 1;
                            prev_adv = true;
                            if failed_in_window > fa.max_failed_per_window {
                                fa.max_failed_per_window = failed_in_window;
                            }
                            failed_in_window = 0;
                            if base > n {
                                done_at = Some(i);
                            }
                        } else {
                            let behind = wire(base).wrapping_sub(1).wrapping_sub(k);
                            if behind < 32768 {
                                if behind == 0 {
                                    fa.dup_acks += 1;
                                } else {
                                    fa.stale_acks += 1;
                                }
                                last_rx_was_stale_ack = true;
                                mix(&mut shape, 77);
                            } else {
                                fa.future_acks += 1;
                                mix(&mut shape, 78);
                            }
                        }
                    }
                    RDec::Ok(RPacket::Error { .. }) => {
                        fa.peer_error = true;
                        if handshake_pending {
                            fa.error_at_handshake = true;
                        }
                        if error_at.is_none() {
                            error_at = Some(i);
                        }
                        mix(&mut shape, 79);
                    }
                    _ => {
                        if handshake_pending {
                            handshake_pending = false;
                        }
                        fa.noise += 1;
                        failed_in_window += 1;
                        mix(&mut shape, 80);
                    }
                }
            }
            Ev::RxTimeout { .. } => {
                if in_burst {
                    close_run(&mut out, run_len, &mut push, i);
                    in_burst = false;
                    last_burst_t = Some(burst_t);
                }
                if done_at.is_some() {
                    push(&mut out, "S6", format!("the worker kept receiving (event {}) after the final block was acknowledged", i));
                }
                if error_at.is_some() {
                    push(&mut out, "S7", format!("the worker kept waiting (event {}) after the peer's ERROR", i));
                }
                prev_adv = false;
                last_rx_was_stale_ack = false;
                if handshake_pending {
                    handshake_pending = false;
                }
                fa.timeouts += 1;
                failed_in_window += 1;
                mix(&mut shape, 81);
            }
        }
    }
    if in_burst {
        close_run(&mut out, run_len, &mut push, r.trace.len());
    }
    if failed_in_window > fa.max_failed_per_window {
        fa.max_failed_per_window = failed_in_window;
    }
    // the sender's count is reset by an advancing ACK, i.e. by a successful receive: both readings coincide
    fa.max_consecutive_failed = fa.max_failed_per_window;
    if r.cap_hit {
        push(&mut out, "S8", format!("the worker was still running after {} receive attempts (cap); it never gives up", r.recv_calls));
    }
    if r.worker_panicked {
        push(&mut out, "P0", format!("the worker thread panicked after {} events{}", r.trace.len(), if last_rx_was_stale_ack { " right after a stale/duplicate ACK" } else { "" }));
    }
    if last_rx_was_stale_ack && done_at.is_none() && error_at.is_none() && !r.cap_hit {
        // the thread ended and the last thing that happened was a stale/duplicate ACK
        push(&mut out, "S10", format!("the transfer ended right after a stale/duplicate acknowledgement (event {}), first unacknowledged block {}, final block {}", r.trace.len() - 1, base, n));
    }
    if done_at.is_none() && error_at.is_none() && !r.cap_hit && !r.worker_panicked && hi >= 1 && hi < n && base == hi + 1 && prev_adv && matches!(r.trace.last(), Some(Ev::Rx { .. })) {
        // everything emitted was acknowledged and the worker ended - but the short final block was never sent
        push(&mut out, "S11", format!("the transfer ended after block {} was acknowledged although the final block {} (the first one shorter than blksize) was never sent; file {} bytes, blksize {}", hi, n, sc.file_len, blk));
    }
    fa.completed = done_at.is_some();
    fa.ended_cleanly = !r.cap_hit && !r.worker_panicked;
    fa.shape = shape;
    (out, fa)
}

fn analyze_receiver(sc: &Scenario, r: &SimResult) -> (Vec<Finding>, Facts) {
    let mut out = vec![];
    let mut fa = Facts::default();
    let blk = sc.blk;
    let ws = sc.ws as u64;
    let mut acc_blocks: u64 = 0;
    let mut acc_len: u64 = 0;
    let mut final_seen = false;
    let mut since_ack: u64 = 0;
    let mut must_ack: Option<usize> = None; // event index at which an ACK became due
    let mut final_acked_at: Option<usize> = None;
    let mut error_at: Option<usize> = None;
    let mut failed_in_window: u64 = 0;
    let mut failed_run: u64 = 0;
    let mut last_acked_abs: u64 = 0;
    let mut once = std::collections::HashSet::new();
    let mut shape: u64 = 0xcbf29ce484222325;
    let mut prev_tx: Option<Vec<u8>> = None;
    let mut run_len: u8 = 0;
    let mut push = |out: &mut Vec<Finding>, pred: &'static str, detail: String| {
        if once.insert(pred) {
            out.push(f(pred, detail));
        }
    };
    for (i, ev) in r.trace.iter().enumerate() {
        if final_acked_at.is_some() || error_at.is_some() {
            // copies of the final ACK in duplicate-packets mode are part of that emission
            let is_copy = matches!(ev, Ev::Tx { bytes, .. } if prev_tx.as_deref() == Some(bytes.as_slice()) && run_len < sc.repeat && error_at.is_none());
            if !is_copy {
                fa.events_after_end += 1;
                match ev {
                    Ev::Tx { bytes, .. } => push(&mut out, "R4", format!("datagram {} emitted at event {} after the transfer had ended", crate::common::hex(&bytes[..bytes.len().min(8)]), i)),
                    _ => push(&mut out, "R4", format!("the worker kept receiving (event {}) after the transfer had ended", i)),
                }
            }
        }
        match ev {
            Ev::Tx { bytes, disk, .. } => {
                if prev_tx.as_deref() == Some(bytes.as_slice()) {
                    run_len = run_len.saturating_add(1);
                } else {
                    if run_len != 0 && run_len != sc.repeat {
                        push(&mut out, "S9", format!("an acknowledgement was emitted {} time(s) back to back, expected {}", run_len, sc.repeat));
                    }
                    run_len = 1;
                    prev_tx = Some(bytes.clone());
                }
                let RDec::Ok(RPacket::Ack(k)) = refcodec::decode(bytes) else {
                    continue;
                };
                fa.acks_emitted += 1;
                mix(&mut shape, 3);
                let behind = wire(acc_blocks).wrapping_sub(k) as u64;
                if behind >= 32768 || behind > acc_blocks {
                    push(&mut out, "R1", format!("ACK {} emitted at event {} but only {} blocks (last wire number {}) have arrived in sequence", k, i, acc_blocks, wire(acc_blocks)));
                    continue;
                }
                let acked_abs = acc_blocks - behind;
                if let Some(d) = disk {
                    let need = if acked_abs == acc_blocks { acc_len } else { acked_abs * blk as u64 };
                    if !d.is_prefix_of_acc {
                        push(&mut out, "R2", format!("at ACK {} (event {}) the file ({} bytes) is not the in-order concatenation of the blocks received ({} bytes)", k, i, d.len, acc_len));
                    } else if d.len < need {
                        push(&mut out, "R2", format!("at ACK {} (event {}) the file holds {} bytes, blocks 1..{} are {} bytes", k, i, d.len, acked_abs, need));
                    }
                }
                if acked_abs == acc_blocks {
                    since_ack = 0;
                    must_ack = None;
                    if acked_abs > last_acked_abs || i == 0 {
                        // progress: a new window starts (a repeated ACK does not reset the count)
                        if failed_in_window > fa.max_failed_per_window {
                            fa.max_failed_per_window = failed_in_window;
                        }
                        failed_in_window = 0;
                        last_acked_abs = acked_abs;
                    }
                    if final_seen && final_acked_at.is_none() {
                        final_acked_at = Some(i);
                    }
                }
            }
            Ev::Rx { bytes, wire_error, .. } => {
                if run_len != 0 && run_len != sc.repeat {
                    push(&mut out, "S9", format!("an acknowledgement was emitted {} time(s) back to back, expected {}", run_len, sc.repeat));
                }
                run_len = 0;
                prev_tx = None;
                if let Some(due) = must_ack {
                    push(&mut out, "R3", format!("an acknowledgement was due at event {} ({} blocks in sequence since the last one, windowsize {}, final block seen: {}) but the worker went on receiving", due, since_ack, ws, final_seen));
                }
                let dec = if *wire_error { RDec::Ok(RPacket::Error { code: 0, msg: String::new() }) } else { refcodec::decode(bytes) };
                match dec {
                    RDec::Ok(RPacket::Data { block, data }) => {
                        if !final_seen && block == wire(acc_blocks + 1) {
                            acc_blocks += 1;
                            acc_len += data.len() as u64;
                            since_ack += 1;
                            failed_run = 0;
                            fa.accepted_blocks += 1;
                            if acc_blocks > 65535 {
                                fa.crossed_wrap = true;
                            }
                            mix(&mut shape, 5);
                            if data.len() < blk {
                                final_seen = true;
                            }
                            if final_seen || since_ack >= ws {
                                must_ack = Some(i);
                            }
                        } else {
                            let behind = wire(acc_blocks).wrapping_sub(block);
                            if behind < 32768 {
                                fa.data_dups_delivered += 1;
                                mix(&mut shape, 6);
                            } else {
                                fa.data_gaps_delivered += 1;
                                mix(&mut shape, 7);
                            }
                        }
                    }
                    RDec::Ok(RPacket::Error { .. }) => {
                        fa.peer_error = true;
                        if error_at.is_none() {
                            error_at = Some(i);
                        }
                        mix(&mut shape, 8);
                    }
                    _ => {
                        fa.noise += 1;
                        failed_in_window += 1;
                        failed_run += 1;
                        fa.max_consecutive_failed = fa.max_consecutive_failed.max(failed_run);
                        mix(&mut shape, 9);
                    }
                }
            }
            Ev::RxTimeout { .. } => {
                if run_len != 0 && run_len != sc.repeat {
                    push(&mut out, "S9", format!("an acknowledgement was emitted {} time(s) back to back, expected {}", run_len, sc.repeat));
                }
                run_len = 0;
                prev_tx = None;
                if let Some(due) = must_ack {
                    push(&mut out, "R3", format!("an acknowledgement was due at event {} but the worker went on receiving", due));
                }
                fa.timeouts += 1;
                failed_in_window += 1;
                failed_run += 1;
                fa.max_consecutive_failed = fa.max_consecutive_failed.max(failed_run);
                mix(&mut shape, 10);
            }
        }
    }
    if run_len != 0 && run_len != sc.repeat {
        push(&mut out, "S9", format!("an acknowledgement was emitted {} time(s) back to back, expected {}", run_len, sc.repeat));
    }
    if failed_in_window > fa.max_failed_per_window {
        fa.max_failed_per_window = failed_in_window;
    }
    if let Some(due) = must_ack {
        if error_at.is_none() && !r.cap_hit {
            push(&mut out, "R3", format!("an acknowledgement was due at event {} but the worker ended without sending it", due));
        }
    }
    if r.cap_hit {
        push(&mut out, "S8", format!("the worker was still running after {} receive attempts (cap); it never gives up", r.recv_calls));
    }
    if r.worker_panicked {
        push(&mut out, "P0", format!("the worker thread panicked after {} events", r.trace.len()));
    }
    fa.completed = final_acked_at.is_some();
    fa.ended_cleanly = !r.cap_hit && !r.worker_panicked;
    // R5: end state of the file
    let sent_prefix = |b: &[u8]| b.len() <= r.file.len() && b == &r.file[..b.len()];
    if fa.completed && error_at.is_none() {
        match &r.file_after {
            None => push(&mut out, "R5", format!("the upload completed (final ACK sent) but the file is absent afterwards")),
            Some(b) => {
                if b != &r.acc {
                    push(&mut out, "R5", format!("the upload completed but the file holds {} bytes that differ from the {} bytes received in sequence", b.len(), r.acc.len()));
                }
            }
        }
    } else if !r.cap_hit {
        // the upload failed (also when the worker thread died)
        match &r.file_after {
            None => {
                if !sc.clean {
                    push(&mut out, "R6", "the upload failed with keep-on-error in force but the partial file was removed".to_string());
                }
            }
            Some(b) => {
                if sc.clean {
                    push(&mut out, "R6", format!("the upload failed with clean-on-error in force but a partial file of {} bytes remains", b.len()));
                } else if !sent_prefix(b) {
                    push(&mut out, "R6", format!("the upload failed; the kept file ({} bytes) is not a prefix of the bytes sent", b.len()));
                }
            }
        }
    }
    fa.shape = shape;
    (out, fa)
}
