//! C14 Bundled client and server interoperate byte-exactly (wire: real tftpc against real tftpd).

use crate::common::*;
use crate::viol;
use crate::wire::{self, Server, StartError};
use proptest::prelude::*;
use serde::{Deserialize, Serialize};
use serde_json::Value;
use std::path::Path;
use std::process::{Command, Stdio};
use std::time::{Duration, Instant};

#[derive(Clone, Copy, Debug, PartialEq, Serialize, Deserialize)]
pub enum Style {
    Plain,
    Nested,
    Windows,
}

#[derive(Clone, Copy, Debug, PartialEq, Serialize, Deserialize)]
pub enum Refusal {
    None,
    Missing,
    Exists,
    ReadOnly,
}

#[derive(Clone, Debug, Serialize, Deserialize)]
pub struct Case {
    pub single: bool,
    pub ipv6: bool,
    pub upload: bool,
    pub style: Style,
    pub blk: usize,
    pub ws: u16,
    pub timeout: u8,
    pub len: usize,
    pub refusal: Refusal,
    pub abs_rd: bool,
    pub seed: u64,
    /// an older, longer file already sits at the destination (download: in the client's receive directory; upload: on an --overwrite server)
    #[serde(default)]
    pub stale_dest: bool,
    /// tftpc runs with --keep-on-error
    #[serde(default)]
    pub keep: bool,
    /// the server runs with --duplicate-packets N
    #[serde(default)]
    pub server_dup: u8,
    /// index into NAMES (the file's basename)
    #[serde(default)]
    pub name_idx: u8,
    /// an upload is also given -rd <dir> (meaningless for an upload); a decoy of the same relative name sits in that directory
    #[serde(default)]
    pub upload_rd: bool,
}

/// basenames: lower case, upper and mixed case, several dots, no extension, digits/dash/underscore
const NAMES: [&str; 7] = ["f.bin", "README.md", "Image-V2.BIN", "noext", "x.tar.gz", "UPPER", "MiXeD_case-1.Dat"];

fn run_client(args: &[String], cwd: &Path, limit: Duration) -> Result<(String, String), String> {
    let exe = wire::bindir().join("tftpc");
    let out_p = cwd.join("tftpc.out");
    let err_p = cwd.join("tftpc.err");
    let mut child = Command::new(&exe)
        .args(args)
        .current_dir(cwd)
        .stdin(Stdio::null())
        .stdout(std::fs::File::create(&out_p).unwrap())
        .stderr(std::fs::File::create(&err_p).unwrap())
        .spawn()
        .map_err(|e| format!("cannot spawn tftpc: {}", e))?;
    let t0 = Instant::now();
    loop {
        match child.try_wait() {
            Ok(Some(_)) => break,
            Ok(None) => {
                if t0.elapsed() > limit {
                    let _ = child.kill();
                    let _ = child.wait();
                    return Err(format!("tftpc did not finish within {:?}", limit));
                }
                std::thread::sleep(Duration::from_millis(2));
            }
            Err(e) => return Err(format!("wait: {}", e)),
        }
    }
    let o = std::fs::read_to_string(&out_p).unwrap_or_default();
    let e = std::fs::read_to_string(&err_p).unwrap_or_default();
    let _ = std::fs::remove_file(&out_p);
    let _ = std::fs::remove_file(&err_p);
    Ok((o, e))
}

fn run_case(dir: &Path, c: &Case) -> Result<(), (String, String)> {
    let root = dir.join("c14");
    let _ = std::fs::remove_dir_all(&root);
    let send = root.join("send");
    let recv = root.join("recv");
    let cdir = root.join("client");
    let cout = cdir.join("out");
    for d in [&send, &recv, &cdir, &cout] {
        std::fs::create_dir_all(d.join("sub")).unwrap();
    }
    let data = content(c.seed, c.len);
    let base = NAMES[c.name_idx as usize % NAMES.len()];
    let rel_unix = match c.style {
        Style::Plain => base.to_string(),
        _ => format!("sub/{}", base),
    };
    let rel_arg = match c.style {
        Style::Plain => base.to_string(),
        Style::Nested => format!("sub/{}", base),
        Style::Windows => format!("sub\\{}", base),
    };
    let stale = c.stale_dest && c.refusal == Refusal::None;
    if stale {
        let old = vec![0x55u8; data.len() + 3000];
        if c.upload {
            std::fs::write(recv.join(base), &old).unwrap();
        } else {
            std::fs::write(cout.join(base), &old).unwrap();
        }
    }
    if c.upload {
        std::fs::write(cdir.join(&rel_unix), &data).unwrap();
        if c.refusal == Refusal::Exists {
            std::fs::write(recv.join(base), b"already here").unwrap();
        }
    } else if c.refusal != Refusal::Missing {
        std::fs::write(send.join(&rel_unix), &data).unwrap();
    }
    let mut args = vec![wire::s("-sd"), send.to_string_lossy().to_string(), wire::s("-rd"), recv.to_string_lossy().to_string()];
    if c.single {
        args.push(wire::s("-s"));
    }
    if c.refusal == Refusal::ReadOnly {
        args.push(wire::s("-r"));
    }
    if stale && c.upload {
        args.push(wire::s("--overwrite"));
    }
    if c.server_dup > 0 {
        args.push(wire::s("--duplicate-packets"));
        args.push(c.server_dup.to_string());
    }
    let local = wire::local_ip();
    let ip = if c.ipv6 { "::1" } else { local.as_str() };
    let mut srv = match Server::start_on(ip, &args, &root, None) {
        Ok(s) => s,
        Err(StartError::Exited(code, e)) => return Err(("harness".into(), format!("tftpd exited at start-up with {}: {}", code, e))),
        Err(StartError::Harness(e)) => return Err(("harness".into(), e)),
    };
    let mut cargs = vec![rel_arg.clone(), wire::s("-i"), wire::s(ip), wire::s("-p"), srv.port.to_string(), wire::s("-b"), c.blk.to_string(), wire::s("-w"), c.ws.to_string(), wire::s("-t"), c.timeout.to_string()];
    if c.keep {
        cargs.push(wire::s("--keep-on-error"));
    }
    if c.upload {
        cargs.push(wire::s("-u"));
        if c.upload_rd {
            std::fs::write(cout.join(&rel_unix), b"decoy: not the file named on the command line").unwrap();
            cargs.push(wire::s("-rd"));
            cargs.push(if c.abs_rd { cout.to_string_lossy().to_string() } else { wire::s("out") });
        }
    } else {
        cargs.push(wire::s("-d"));
        cargs.push(wire::s("-rd"));
        cargs.push(if c.abs_rd { cout.to_string_lossy().to_string() } else { wire::s("out") });
    }
    let blocks = c.len / c.blk + 1;
    let limit = Duration::from_secs(if blocks > 20000 { 120 } else { 40 });
    let res = run_client(&cargs, &cdir, limit);
    let what = format!("tftpc {:?}", cargs);
    let (_out, err) = match res {
        Ok(x) => x,
        Err(e) => return Err(("client-hung".into(), format!("{}: {}; server stderr: {}", what, e, srv.stderr_tail()))),
    };
    if let Some(st) = srv.exit_status() {
        return Err(("server-terminated".into(), format!("{}: tftpd exited ({})", what, st)));
    }
    // the server's worker prints its verdict a moment after the final ACK; files are complete before that ACK
    let result = (|| -> Result<(), (String, String)> {
        if c.refusal != Refusal::None && !(c.refusal == Refusal::ReadOnly && !c.upload) && !(c.refusal == Refusal::Exists && !c.upload) {
            // refused: no file on the client side, the error is reported
            if !c.upload {
                let snap = wire::snapshot(&cout);
                if snap.iter().any(|(_, e)| matches!(e, wire::Entry::File { .. })) {
                    return Err(("file-after-refusal".into(), format!("{}: the server refused (missing file) but the client created {:?}", what, snap.keys().collect::<Vec<_>>())));
                }
            } else if c.refusal == Refusal::Exists {
                if std::fs::read(recv.join(base)).unwrap_or_default() != b"already here" {
                    return Err(("refused-upload-changed-file".into(), format!("{}: upload refused (exists) but the server's file changed", what)));
                }
            } else if recv.join(base).exists() {
                return Err(("refused-upload-created-file".into(), format!("{}: read-only server stored an upload", what)));
            }
            // "reports the error": something must be said on stderr (the wording is not prescribed)
            if err.trim().is_empty() {
                return Err(("error-not-reported".into(), format!("{}: the server refused the request but tftpc's stderr does not report an error: {:?}", what, err)));
            }
            return Ok(());
        }
        if c.upload {
            let stored = std::fs::read(recv.join(base)).ok();
            if stored.as_deref() != Some(&data[..]) {
                let elsewhere: Vec<String> = wire::snapshot(&recv).keys().cloned().collect();
                return Err(("upload-mismatch".into(), format!("{}: expected {} bytes at <receive dir>/<basename>, found {:?} bytes; receive dir holds {:?}; client stderr {:?}; server stderr {}", what, data.len(), stored.map(|s| s.len()), elsewhere, err, srv.stderr_tail())));
            }
        } else {
            let got = std::fs::read(cout.join(base)).ok();
            if got.as_deref() != Some(&data[..]) {
                let elsewhere: Vec<String> = wire::snapshot(&cdir).keys().cloned().collect();
                return Err(("download-mismatch".into(), format!("{}: expected {} bytes at <receive-directory>/<basename>, found {:?} bytes; client dir holds {:?}; client stderr {:?}; server stderr {}", what, data.len(), got.map(|s| s.len()), elsewhere, err, srv.stderr_tail())));
            }
        }
        Ok(())
    })();
    drop(srv);
    let _ = std::fs::remove_dir_all(&root);
    result
}

pub fn judge(dir: &Path, c: &Case, obs: &mut Obs) -> Judge {
    obs.class(if c.single { "single-port" } else { "multi-port" });
    obs.class(if c.ipv6 { "ipv6" } else { "ipv4" });
    obs.class(if c.upload { "upload" } else { "download" });
    obs.class(match c.style {
        Style::Plain => "plain-path",
        Style::Nested => "nested-path",
        Style::Windows => "windows-style-path",
    });
    obs.class(match c.refusal {
        Refusal::None => "served",
        Refusal::Missing => "refusal-missing",
        Refusal::Exists => "refusal-exists",
        Refusal::ReadOnly => "refusal-read-only",
    });
    let blocks = c.len / c.blk + 1;
    obs.class_if(blocks > 65535, "beyond-65535-blocks");
    obs.class_if(c.stale_dest && c.refusal == Refusal::None, "older-longer-file-at-destination");
    obs.class_if(c.server_dup > 0, "server-duplicate-packets");
    obs.class_if(c.upload && c.upload_rd, "upload-with-receive-directory-flag");
    obs.class_if(NAMES[c.name_idx as usize % NAMES.len()].chars().any(|ch| ch.is_ascii_uppercase()), "upper-case-in-name");
    obs.class_if(c.len % c.blk == 0 && c.len > 0, "exact-multiple");
    obs.nontrivial = c.blk != 512 || c.ws != 1 || blocks >= 2;
    let r = match run_case(dir, c) {
        Err((sig, d)) if sig != "harness" => match run_case(dir, c) {
            Ok(()) => {
                obs.inconclusive = Some(format!("failed once ({}: {}), passed on the isolated re-run", sig, d));
                Ok(())
            }
            other => other,
        },
        other => other,
    };
    match r {
        Ok(()) => Ok(()),
        Err((sig, d)) if sig == "harness" => {
            obs.inconclusive = Some(d);
            Ok(())
        }
        Err((sig, d)) => viol!(sig, "{}", d),
    }
}

fn has_v6() -> bool {
    std::net::UdpSocket::bind("[::1]:0").is_ok()
}

pub fn strategy() -> BoxedStrategy<Case> {
    let v6 = has_v6();
    (
        (any::<bool>(), any::<bool>(), any::<bool>(), prop::sample::select(vec![Style::Plain, Style::Nested, Style::Windows])),
        prop_oneof![5 => prop::sample::select(vec![8usize, 9, 16, 511, 512, 513, 1024, 1428, 8192, 65464]), 3 => 8usize..=65464],
        prop_oneof![6 => 1u16..=8, 2 => prop::sample::select(vec![16u16, 64, 1000, 65534, 65535]), 1 => 1u16..=65535],
        prop_oneof![4 => prop::sample::select(vec![1u8, 2, 5, 255]), 1 => 1u8..=255],
        (0u8..10, any::<u16>(), 0usize..40),
        prop_oneof![8 => Just(Refusal::None), 1 => Just(Refusal::Missing), 1 => Just(Refusal::Exists), 1 => Just(Refusal::ReadOnly)],
        any::<bool>(),
        any::<u64>(),
    )
        .prop_map(move |((single, ipv6, upload, style), blk, ws, timeout, (fam, r, rnd), refusal, abs_rd, seed)| {
            // keep one burst below ~100 KB so that loopback never drops datagrams
            let per = blk + 100;
            let max_burst = (100_000 / per).max(1);
            let w = (ws as usize).min(8);
            let mut blocks = match fam {
                0 => 0,
                1 | 2 | 3 => 1,
                4 => w,
                5 => w + 1,
                6 => 2 * w + 1,
                _ => rnd,
            };
            if ws as usize > max_burst {
                blocks = blocks.min(max_burst.saturating_sub(1));
            }
            if blk > 4096 {
                blocks = blocks.min(4);
            }
            let rem = match fam {
                0 => r as usize % 2,
                1 => blk - 1,
                2 => 0,
                3 => 1,
                4 | 5 => 0,
                _ => r as usize % blk,
            };
            let refusal = match (refusal, upload) {
                (Refusal::Missing, true) => Refusal::None,
                (Refusal::Exists, false) | (Refusal::ReadOnly, false) => Refusal::None,
                (x, _) => x,
            };
            Case {
                single,
                ipv6: ipv6 && v6,
                upload,
                style,
                blk,
                ws,
                timeout,
                len: blocks * blk + rem,
                refusal,
                abs_rd,
                seed,
                stale_dest: seed % 5 == 0,
                keep: seed % 3 == 0,
                // one case in five: the server repeats every data-phase packet (only with short transfers: 1 ms per copy)
                // (254 copies: the server is busy for a quarter of a second per packet - a slow but loss-free peer for the client's timers)
                server_dup: if seed % 5 == 1 && blocks <= 3 && blocks >= 1 && seed % 3 == 0 { 254 } else if seed % 5 == 1 && blocks <= 12 { [1u8, 2, 3, 10][(seed / 5 % 4) as usize] } else { 0 },
                name_idx: if seed % 3 == 2 { (seed / 3 % 7) as u8 } else { 0 },
                upload_rd: seed % 4 == 3,
            }
        })
        .boxed()
}

/// C15 on the wire: > 65535 blocks at blksize 8 through the real binaries, both directions
pub fn wrap_cases() -> Vec<Case> {
    let mut out = vec![];
    for (upload, ws, single) in [(false, 4u16, false), (true, 1u16, false), (false, 1u16, true), (true, 16u16, true)] {
        out.push(Case {
            single,
            ipv6: false,
            upload,
            style: Style::Plain,
            blk: 8,
            ws,
            timeout: 2,
            len: 65537 * 8 + 3,
            refusal: Refusal::None,
            abs_rd: true,
            seed: 15,
            stale_dest: false,
            keep: false,
            server_dup: 0,
            name_idx: 0,
            upload_rd: false,
        });
    }
    // exactly 65536 blocks (the block count itself wraps a 16-bit counter)
    for upload in [true, false] {
        out.push(Case { single: false, ipv6: false, upload, style: Style::Plain, blk: 8, ws: 64, timeout: 2, len: 65535 * 8 + 5, refusal: Refusal::None, abs_rd: true, seed: 16, stale_dest: false, keep: false, server_dup: 0, name_idx: 0, upload_rd: false });
    }
    out
}

/// a deterministic grid: sizes around block/window boundaries x representative option pairs x direction x port mode
fn grid() -> Vec<Case> {
    let mut out = vec![];
    for (blk, ws) in [(512usize, 1u16), (8, 4), (1024, 3), (1428, 8), (65464, 1), (511, 2)] {
        let w = ws as usize;
        for len in [0usize, 1, blk - 1, blk, blk + 1, w * blk, w * blk + 1, (w + 1) * blk - 1, 2 * w * blk + 7] {
            if blk > 4096 && len > 3 * blk {
                continue;
            }
            for upload in [false, true] {
                for single in [false, true] {
                    out.push(Case { single, ipv6: false, upload, style: Style::Plain, blk, ws, timeout: 3, len, refusal: Refusal::None, abs_rd: false, seed: 1400 + len as u64, stale_dest: false, keep: false, server_dup: 0, name_idx: ((len + blk) % 7) as u8, upload_rd: false });
                }
            }
        }
    }
    out
}

pub fn run(ctx: &Ctx) {
    ctx.set_rule("the real tftpc is run against the real tftpd. Deterministic grid: 9 sizes around block/window boundaries x 6 (blksize, windowsize) pairs x direction x port mode. Random: {download, upload} x {single, multi port} x {IPv4, IPv6 loopback if available} x {plain, nested, Windows-style path} x basenames {lower, UPPER, MiXeD case, several dots, no extension} x blksize 8..65464 x windowsize 1..65535 x timeout 1..255 x file sizes {0, 1, blk-1, blk, blk+1, W*blk, (W+1)*blk, 2W*blk+r, random} (one burst kept below 100 KB), x server --duplicate-packets {0,1,2,3,10} x client --keep-on-error x an older, longer file at the destination x uploads that also carry -rd (with a decoy of the same name in that directory), plus refusals (missing file, existing file without overwrite, read-only server), plus two >65535-block transfers at blksize 8. Oracle after tftpc exits: byte-identical files on both sides; a download is stored at <receive-directory>/<basename>, an upload at <server receive dir>/<basename>; on refusal no file appears on the client side, the server's file is untouched and tftpc's stderr reports the error; tftpc ends within the watchdog (40 s, 120 s for the long transfers). Non-trivial = non-default options or >= 2 blocks; distinct = distinct cases. Failures are re-run once in isolation.");
    ctx.assume("absolute local paths for tftpc -u are outside the generator (the client opens them relative to its cwd; the property quantifies over relative, nested and Windows-style paths)");
    ctx.assume("windowsize x blksize above the loopback socket buffer is exercised in the simulator and by C09's model client with an enlarged receive buffer, not with tftpc (kernel drops would make the run depend on timing)");
    let dirs = DirPool::new(ctx, "c14");
    let g = grid();
    enumerate(ctx, "size-x-option-grid", &g, true, |c, o| dirs.with(|d| judge(d, c, o)));
    explore_n(ctx, "random", ctx.tier.pick(2_500, 50_000), shards(), 24, strategy, |c: &Case, o| dirs.with(|d| judge(d, c, o)));
    let wraps = wrap_cases();
    // quick: one download, one upload of 65538 blocks and the 65536-block upload
    let pick: Vec<Case> = if ctx.tier == Tier::Quick { vec![wraps[0].clone(), wraps[1].clone(), wraps[4].clone()] } else { wraps.clone() };
    let wraps = pick;
    let n = wraps.len();
    enumerate(ctx, "beyond-65535-blocks", &wraps[..n], false, |c, o| dirs.with(|d| judge(d, c, o)));
}

pub fn replay(ctx: &Ctx, part: &str, case: &Value) -> bool {
    let dirs = DirPool::new(ctx, "c14");
    replay_one(ctx, part, case, |c: &Case, o| dirs.with(|d| judge(d, c, o)))
}
