//! C08 Window flow control; retransmit only on timeout or gap (sim).

use super::simcommon::*;
use crate::common::*;
use crate::sim::{self, After, Role, Scenario, Sev};
use crate::simgen;
use crate::viol;
use proptest::prelude::*;
use serde_json::Value;
use std::path::Path;

const OWNED: [&str; 5] = ["S3", "S4", "S5", "S10", "R3"];

pub fn judge(dir: &Path, sc: &Scenario, obs: &mut Obs) -> Judge {
    let (r, findings, fa) = run_and_judge(dir, sc, obs, &OWNED)?;
    let stale = fa.stale_acks + fa.dup_acks;
    obs.nontrivial = stale > 0 || fa.near_timeout_bursts > 0 || (sc.role == Role::Receiver && fa.data_dups_delivered > 0);
    obs.class_if(stale > 0 && sc.ws >= 65534, "stale-ack-with-ws>=65534");
    if let Some(p) = findings.iter().find(|f| f.pred == "P0") {
        if stale > 0 {
            viol!("sender-P0", "{} | {}", p.detail, describe(sc));
        }
    }
    // a stale or duplicate ACK must not end the transfer: with an honest peer afterwards it completes
    let harmless_script = sc.script.iter().all(|e| matches!(e, Sev::Pass | Sev::Hold | Sev::DropPending | Sev::At(_) | Sev::AckFull | Sev::AckPartial(_) | Sev::AckDup(_) | Sev::DataDup(_) | Sev::DataFuture(_) | Sev::StrayAck(_) | Sev::Garbage(_) | Sev::StrayData(_) | Sev::Oack));
    // the OACK handshake itself is outside the property (C04/C08 speak about the data phase): it must not be disturbed
    let handshake_intact = !sc.handshake || matches!(sc.script.first(), Some(Sev::Pass) | None);
    // (random garbage can spell a well-formed ERROR packet: then the peer did send an ERROR and the transfer rightly ends)
    if harmless_script && !fa.peer_error && handshake_intact && sc.after == After::Honest && sc.fates.is_empty() && fa.max_failed_per_window.max(fa.max_consecutive_failed) < 6 && sc.dally {
        obs.class("completion-required");
        if !(fa.completed && fa.ended_cleanly) {
            viol!(
                "aborted-by-harmless-acks",
                "the transfer did not complete although the peer only sent duplicate/stale/partial acknowledgements (or duplicate blocks) and then behaved honestly; {} stale/dup ACKs, {} timeouts, max {} failed receives per window, script {:?} | {}",
                stale,
                fa.timeouts,
                fa.max_failed_per_window,
                r.script_used,
                describe(sc)
            );
        }
    }
    Ok(())
}

fn sender_sev() -> BoxedStrategy<Sev> {
    prop_oneof![
        8 => Just(Sev::Pass),
        2 => Just(Sev::Hold),
        1 => Just(Sev::DropPending),
        4 => prop::sample::select(vec![0u16, 1, 250, 500, 999, 1000]).prop_map(Sev::At),
        2 => Just(Sev::AckFull),
        3 => any::<u16>().prop_map(Sev::AckPartial),
        6 => prop_oneof![6 => 0u16..3, 2 => 0u16..40, 1 => any::<u16>()].prop_map(Sev::AckDup),
        // datagrams that are neither ACK nor ERROR: they must not trigger a transmission either
        1 => proptest::collection::vec(any::<u8>(), 0..6).prop_map(Sev::Garbage),
        1 => any::<u16>().prop_map(Sev::StrayData),
        1 => Just(Sev::Oack),
    ]
    .boxed()
}

fn receiver_sev() -> BoxedStrategy<Sev> {
    prop_oneof![
        8 => Just(Sev::Pass),
        1 => Just(Sev::Hold),
        1 => Just(Sev::DropPending),
        5 => prop_oneof![3 => 0u16..4, 1 => 0u16..100].prop_map(Sev::DataDup),
        2 => (0u16..5).prop_map(Sev::DataFuture),
        1 => any::<u16>().prop_map(Sev::StrayAck),
    ]
    .boxed()
}

pub fn strategy() -> BoxedStrategy<Scenario> {
    (
        prop_oneof![3 => Just(Role::Sender), 1 => Just(Role::Receiver)],
        prop_oneof![
            6 => prop::sample::select(vec![1u16, 2, 3, 4, 5, 8, 16]),
            3 => prop::sample::select(vec![65534u16, 65535]),
            1 => 1u16..=65535,
        ],
        0usize..8,
        0usize..8,
        any::<u64>(),
        any::<bool>(),
        (any::<bool>(), Just(true), Just(true)),
    )
        .prop_flat_map(|(role, ws, extra_blocks, rem, seed, hs, flags)| {
            let blk = 8usize;
            let w = (ws as usize).min(16);
            // W+3 blocks for small windows; fewer blocks than the window for huge ones
            let blocks = if ws > 16 { 2 + extra_blocks } else { w + extra_blocks };
            let len = blocks * blk + rem;
            let ev = if role == Role::Sender { sender_sev() } else { receiver_sev() };
            (proptest::collection::vec(ev, 0..40)).prop_map(move |mut script| {
                if hs && role == Role::Sender {
                    script.insert(0, Sev::Pass);
                }
                simgen::scenario(role, (blk, ws, len), seed, hs, vec![], script, After::Honest, flags)
            })
        })
        .boxed()
}

/// long transfers: stale numbers from behind the wrap
pub fn wrap_strategy() -> BoxedStrategy<Scenario> {
    (prop::sample::select(vec![1u16, 2, 3, 8]), 0usize..6, any::<u64>(), proptest::collection::vec((0u32..66000, prop_oneof![Just(Sev::AckDup(0)), Just(Sev::AckDup(1)), (0u16..30000).prop_map(Sev::AckDup), Just(Sev::Hold)]), 1..6))
        .prop_map(|(ws, extra, seed, injections)| {
            let blk = 8usize;
            let blocks = 65536 + ws as usize + extra;
            let mut inj = injections.clone();
            inj.sort_by_key(|(p, _)| *p);
            let mut script = vec![];
            let mut pos = 0u32;
            for (p, e) in inj {
                // positions count receive attempts of the lock-step-ish run
                let gap = (p / ws as u32).saturating_sub(pos);
                script.extend(std::iter::repeat(Sev::Pass).take(gap as usize));
                pos += gap;
                script.push(e);
            }
            simgen::scenario(Role::Sender, (blk, ws, blocks * blk + 3), seed, false, vec![], script, After::Honest, (true, true, true))
        })
        .boxed()
}

pub fn run(ctx: &Ctx) {
    sim::init();
    ctx.set_rule("the sending worker under the simulated socket with a virtual clock: windowsize in {1,2,3,4,5,8,16}, 65534, 65535 and random 1..65535 (blksize 8; files of W..W+7 blocks, fewer blocks than the window for huge windows), scripts of <=40 events placing duplicate ACKs (d=0), stale ACKs (d=1,2,...,random, never aliasing an outstanding block), partial ACKs, full ACKs, forced timeouts, lost ACKs, and deliveries after 0, 1/4, 1/2, 999/1000 and exactly 1 timeout of virtual time; then honest completion. A low-rate part runs >65536-block transfers with stale ACK numbers from behind the wrap. The receiving worker gets in-order blocks with duplicates/out-of-order blocks interleaved. Oracle on the trace: never more than windowsize blocks beyond the last acknowledged one (S3); bursts are consecutive and resume at k+1 after ACK(k) (S4); a block is re-sent only if the timeout has elapsed since the previous burst or the burst answers an advancing ACK (S5); a stale/duplicate ACK never ends the transfer (S10, no panic) and the transfer still completes afterwards (demanded when fewer than 6 receive attempts failed both per window and in a row, a run being ended only by an accepted in-order block or an advancing ACK); the receiver acknowledges after windowsize in-order blocks and on the final block (R3). A wire part counts the bursts of real downloads with large acknowledged windows (never more than the acknowledged windowsize outstanding). Non-trivial = >=1 stale/duplicate ACK delivered, or a burst within 5 ms of the timeout edge, or a duplicate block delivered to the receiver; distinct = distinct (scenario, trace shape).");
    ctx.assume("stale ACK numbers are generated at most 32767 behind and never equal to an outstanding block's number (16-bit aliasing)");
    let dirs = DirPool::new(ctx, "c08");
    explore(ctx, "random", ctx.tier.pick(400_000, 4_000_000), strategy, |c: &Scenario, o| dirs.with(|d| judge(d, c, o)));
    explore_n(ctx, "behind-the-wrap", ctx.tier.pick(32, 1600), shards(), 64, wrap_strategy, |c: &Scenario, o| dirs.with(|d| judge(d, c, o)));
    // windows of more than 32768 blocks that really fill (acknowledgement distances beyond half the number space)
    let huge: Vec<Scenario> = super::c15::huge_window_cases().into_iter().filter(|s| s.role == Role::Sender).collect();
    let nh = ctx.tier.pick(5, huge.len());
    enumerate(ctx, "huge-windows", &huge[..nh], false, |c, o| dirs.with(|d| judge(d, c, o)));
    // on the wire the window bound is the *acknowledged* windowsize: downloads from the real tftpd with windows of up to
    // 65535 blocks / several MB, every burst counted by a model client with an enlarged receive buffer (shared with C09)
    // real elapsed time: a window whose transmission takes longer than the negotiated timeout (duplicate-packets mode),
    // followed by a stale ACK - no retransmission may follow (shared with C16's wire part)
    let timer = vec![super::c16w::Case { n: "2".to_string(), single: false, with_options: true, scenario: 2 }];
    enumerate(ctx, "wire-stale-ack-after-long-window", &timer, false, |c, o| dirs.with(|d| super::c16w::judge(d, c, o)));
    let grid = super::c09::big_grid();
    enumerate(ctx, "wire-window-bound", &grid, false, |c, o| dirs.with(|d| super::c09::judge(d, c, o)));
    if ctx.tier == Tier::Thorough {
        explore_n(ctx, "wire-window-bound-random", 600, shards(), 12, super::c09::big_strategy, |c: &super::c09::Case, o| dirs.with(|d| super::c09::judge(d, c, o)));
    }
}

pub fn replay(ctx: &Ctx, part: &str, case: &Value) -> bool {
    if part == "wire-stale-ack-after-long-window" {
        return super::c16w::replay(ctx, "wire-duplicate-packets", case);
    }
    if part.starts_with("wire-") {
        return super::c09::replay(ctx, part, case);
    }
    sim::init();
    let dirs = DirPool::new(ctx, "c08");
    replay_one(ctx, part, case, |c: &Scenario, o| dirs.with(|d| judge(d, c, o)))
}
