//! C06 Access policy (wire, model-based).

use crate::common::*;
use crate::viol;
use crate::wclient::{self, Start, UploadEnd};
use crate::wire::{self, Client, Entry, Server, StartError};
use proptest::prelude::*;
use serde::{Deserialize, Serialize};
use serde_json::Value;
use std::collections::BTreeMap;
use std::path::Path;
use std::time::Duration;

#[derive(Clone, Debug, Serialize, Deserialize)]
pub struct Step {
    pub write: bool,
    /// index into TARGETS
    pub target: u8,
    pub opts: Vec<(String, String)>,
    pub upload_len: usize,
    /// abort the upload with an ERROR after this many blocks
    pub abort_after: Option<usize>,
    /// when the request must be refused anyway: additionally carry an option value the server cannot honour (index into BAD_OPTS)
    #[serde(default)]
    pub bad_opt: Option<u8>,
    /// read request of an existing file: before the request the file is replaced on disk (behind the server's back) by this many bytes
    #[serde(default)]
    pub replaced_len: Option<u16>,
}

/// option values the server never acknowledges; a request that must be refused is refused with or without them
const BAD_OPTS: [(&str, &str); 6] = [("blksize", "7"), ("timeout", "0"), ("windowsize", "0"), ("windowsize", "65536"), ("blksize", "65465"), ("timeout", "256")];

#[derive(Clone, Debug, Serialize, Deserialize)]
pub struct Case {
    pub read_only: bool,
    pub overwrite: bool,
    pub keep: bool,
    pub single: bool,
    pub distinct: bool,
    pub steps: Vec<Step>,
    pub seed: u64,
}

/// names relative to the directory; initial state see `initial()`
const TARGETS: [&str; 14] = ["short.bin", "long.bin", "missing.bin", "sub/inner.bin", "sub/missing.bin", "empty.bin", "other.bin", "/short.bin", "short.bin/child.bin", "LONGNAME", "sub/LONGNAME", "sub\\inner.bin", "\\long.bin", "sub\\missing.bin"];

/// missing names whose lookup fails in unusual ways (below a regular file; a component longer than 255 bytes): read requests only
fn odd_target(t: &str) -> bool {
    t.contains("LONGNAME") || t.contains(".bin/")
}

fn initial(seed: u64) -> BTreeMap<String, Vec<u8>> {
    let mut m = BTreeMap::new();
    m.insert("short.bin".to_string(), content(seed ^ 1, 100));
    m.insert("long.bin".to_string(), content(seed ^ 2, 3000));
    m.insert("sub/inner.bin".to_string(), content(seed ^ 3, 700));
    m.insert("empty.bin".to_string(), vec![]);
    m
}

fn norm(t: &str) -> String {
    // the server treats '\\' and '/' alike (convert_file_path) and drops leading separators
    t.trim_start_matches(|c| c == '/' || c == '\\').replace('\\', "/")
}

fn tree_of(dir: &Path) -> BTreeMap<String, Vec<u8>> {
    let mut m = BTreeMap::new();
    for (rel, e) in wire::snapshot(dir) {
        if let Entry::File { .. } = e {
            m.insert(rel.clone(), std::fs::read(dir.join(&rel)).unwrap_or_default());
        }
    }
    m
}

fn run_case(dir: &Path, c: &Case) -> Result<Vec<&'static str>, (String, String)> {
    let root = dir.join("c06");
    let _ = std::fs::remove_dir_all(&root);
    let send = root.join("send");
    let recv = if c.distinct { root.join("recv") } else { send.clone() };
    for d in [&send, &recv] {
        std::fs::create_dir_all(d.join("sub")).unwrap();
    }
    let mut model_send = initial(c.seed);
    let mut model_recv = if c.distinct { initial(c.seed ^ 0xff) } else { BTreeMap::new() };
    for (k, v) in &model_send {
        std::fs::write(send.join(k), v).unwrap();
    }
    if c.distinct {
        for (k, v) in &model_recv {
            std::fs::write(recv.join(k), v).unwrap();
        }
    }
    let mut args = if c.distinct { vec![wire::s("-sd"), send.to_string_lossy().to_string(), wire::s("-rd"), recv.to_string_lossy().to_string()] } else { vec![wire::s("-d"), send.to_string_lossy().to_string()] };
    if c.read_only {
        args.push(wire::s("-r"));
    }
    if c.overwrite {
        args.push(wire::s("--overwrite"));
    }
    if c.keep {
        args.push(wire::s("--keep-on-error"));
    }
    if c.single {
        args.push(wire::s("-s"));
    }
    let logdir = dir.join("c06logs");
    std::fs::create_dir_all(&logdir).unwrap();
    let mut srv = match Server::start(&args, &logdir) {
        Ok(s) => s,
        Err(StartError::Exited(code, e)) => return Err(("harness".into(), format!("tftpd exited at start-up with {}: {}", code, e))),
        Err(StartError::Harness(e)) => return Err(("harness".into(), e)),
    };
    let mut classes = vec![];
    for (i, st) in c.steps.iter().enumerate() {
        let target_s = TARGETS[st.target as usize % TARGETS.len()].replace("LONGNAME", &"n".repeat(300));
        let target = target_s.as_str();
        let st_write = st.write && !odd_target(TARGETS[st.target as usize % TARGETS.len()]);
        let st = &Step { write: st_write, ..st.clone() };
        let key = norm(target);
        let cl = Client::new();
        let (model, real_dir) = if st.write { (if c.distinct { &mut model_recv } else { &mut model_send }, &recv) } else { (&mut model_send, &send) };
        let exists = model.contains_key(&key);
        if let (false, true, Some(n)) = (st.write, exists, st.replaced_len) {
            // the served file changes between two requests: size and content of the next download are the new ones
            let fresh = content(c.seed ^ (0x5eed + i as u64 * 31 + n as u64), n as usize % 4000);
            std::fs::write(real_dir.join(&key), &fresh).unwrap();
            model.insert(key.clone(), fresh);
            classes.push("file-replaced-between-requests");
        }
        let must_refuse = if st.write { c.read_only || (exists && !c.overwrite) } else { !exists };
        let mut req_opts = st.opts.clone();
        if let (true, Some(b)) = (must_refuse, st.bad_opt) {
            let (n, v) = BAD_OPTS[b as usize % BAD_OPTS.len()];
            req_opts.retain(|(on, _)| on != n);
            req_opts.push((n.to_string(), v.to_string()));
            classes.push("refusal-with-unhonourable-option");
        }
        let what = format!("step {} {} {:?} opts {:?}", i, if st.write { "WRQ" } else { "RRQ" }, target, req_opts);
        let start = wclient::start(&cl, srv.addr, st.write, target, &req_opts, Duration::from_secs(3));
        // ---- expected class
        let expect_refusal: Option<u16> = if st.write {
            if c.read_only {
                Some(2)
            } else if exists && !c.overwrite {
                Some(6)
            } else {
                None
            }
        } else if !exists {
            Some(1)
        } else {
            None
        };
        match (expect_refusal, start) {
            (Some(code), Start::Refused { code: got, from, msg }) => {
                if got != code {
                    return Err(("wrong-error-code".into(), format!("{}: refused with ERROR {} {:?}, expected ERROR {}", what, got, msg, code)));
                }
                if from.port() != srv.port {
                    return Err(("refusal-port".into(), format!("{}: the refusal came from port {}, not from the listening port {}", what, from.port(), srv.port)));
                }
                // a refusal starts no transfer: nothing else arrives
                if let Some((b, f)) = cl.recv(Duration::from_millis(60)) {
                    return Err(("transfer-after-refusal".into(), format!("{}: after the refusal another datagram {} arrived from {}", what, hex(&b), f)));
                }
                classes.push(match code {
                    2 => "refused-read-only",
                    6 => "refused-exists",
                    _ => "refused-not-found",
                });
            }
            (Some(code), other) => return Err(("not-refused".into(), format!("{}: must be refused with ERROR {} but the server answered {:?}", what, code, other))),
            (None, Start::Accepted { neg, first_data }) => {
                if st.write {
                    let data = content(c.seed ^ (i as u64 + 77), st.upload_len);
                    let mut srcs = vec![];
                    match wclient::upload(&cl, &neg, &data, st.abort_after, &mut srcs) {
                        Ok(UploadEnd::Completed) => {
                            model.insert(key.clone(), data);
                            classes.push(if exists { "overwrite-completed" } else { "upload-completed" });
                        }
                        Ok(UploadEnd::Aborted(k)) => {
                            // C13: removed (clean) or a prefix kept
                            std::thread::sleep(Duration::from_millis(40));
                            if c.keep {
                                let real = std::fs::read(real_dir.join(&key)).ok();
                                match real {
                                    Some(r) if r.len() <= data.len() && r == data[..r.len()] => {
                                        model.insert(key.clone(), r);
                                    }
                                    other => return Err(("kept-partial".into(), format!("{}: aborted after {} blocks with keep-on-error; file is {:?} bytes, not a prefix of the bytes sent", what, k, other.map(|r| r.len())))),
                                }
                            } else {
                                model.remove(&key);
                            }
                            classes.push("upload-aborted");
                        }
                        Err(e) => return Err(("accepted-upload-failed".into(), format!("{}: {}", what, e))),
                    }
                } else {
                    // an acknowledged tsize is the size the file has now (whatever earlier requests saw)
                    if let Some(list) = &neg.oack {
                        if let Some((_, ts)) = list.iter().find(|(o, _)| *o == crate::refcodec::ROpt::Tsize) {
                            let want = model.get(&key).unwrap().len() as u64;
                            if *ts != want {
                                return Err(("oack-tsize".into(), format!("{}: OACK tsize {} but the file holds {} bytes", what, ts, want)));
                            }
                            classes.push("download-tsize-checked");
                        }
                    }
                    let mut srcs = vec![];
                    match wclient::download(&cl, &neg, first_data, &mut srcs) {
                        Ok(got) => {
                            if &got != model.get(&key).unwrap() {
                                return Err(("download-content".into(), format!("{}: downloaded {} bytes differ from the file's {} bytes", what, got.len(), model.get(&key).unwrap().len())));
                            }
                            classes.push("download-completed");
                        }
                        Err(e) => return Err(("accepted-download-failed".into(), format!("{}: {}", what, e))),
                    }
                }
            }
            (None, other) => return Err(("wrongly-refused".into(), format!("{}: must be accepted but the server answered {:?}", what, other))),
        }
        // the real trees equal the model after every step (uploads are flushed before the final ACK)
        let real_send = tree_of(&send);
        if real_send != model_send {
            return Err(("tree-mismatch".into(), format!("{}: send directory differs from the model: {}", what, describe_diff(&model_send, &real_send))));
        }
        if c.distinct {
            let real_recv = tree_of(&recv);
            if real_recv != model_recv {
                return Err(("tree-mismatch".into(), format!("{}: receive directory differs from the model: {}", what, describe_diff(&model_recv, &real_recv))));
            }
        }
        if let Some(stt) = srv.exit_status() {
            return Err(("server-terminated".into(), format!("{}: tftpd exited ({})", what, stt)));
        }
    }
    drop(srv);
    let _ = std::fs::remove_dir_all(&root);
    let _ = std::fs::remove_dir_all(&logdir);
    Ok(classes)
}

fn describe_diff(model: &BTreeMap<String, Vec<u8>>, real: &BTreeMap<String, Vec<u8>>) -> String {
    let mut out = vec![];
    for (k, v) in model {
        match real.get(k) {
            None => out.push(format!("{} missing (model {} bytes)", k, v.len())),
            Some(r) if r != v => out.push(format!("{} has {} bytes, model {} bytes (first difference at {})", k, r.len(), v.len(), r.iter().zip(v.iter()).position(|(a, b)| a != b).unwrap_or(r.len().min(v.len())))),
            _ => {}
        }
    }
    for (k, r) in real {
        if !model.contains_key(k) {
            out.push(format!("{} exists ({} bytes) but not in the model", k, r.len()));
        }
    }
    out.join("; ")
}

pub fn judge(dir: &Path, c: &Case, obs: &mut Obs) -> Judge {
    obs.class_if(c.read_only, "read-only");
    obs.class_if(c.overwrite, "overwrite");
    obs.class_if(c.keep, "keep-on-error");
    obs.class_if(c.single, "single-port");
    obs.class_if(c.distinct, "distinct-dirs");
    let r = match run_case(dir, c) {
        Err((sig, d)) if sig != "harness" => match run_case(dir, c) {
            Ok(k) => {
                obs.inconclusive = Some(format!("failed once ({}: {}), passed on the isolated re-run", sig, d));
                Ok(k)
            }
            other => other,
        },
        other => other,
    };
    match r {
        Ok(classes) => {
            let refused = classes.iter().any(|k| k.starts_with("refused"));
            let accepted = classes.iter().any(|k| k.ends_with("completed"));
            obs.nontrivial = refused && accepted;
            for k in classes {
                obs.class(k);
            }
            Ok(())
        }
        Err((sig, d)) if sig == "harness" => {
            obs.inconclusive = Some(d);
            Ok(())
        }
        Err((sig, d)) => viol!(sig, "{} | read_only={} overwrite={} keep={} single={} distinct={}", d, c.read_only, c.overwrite, c.keep, c.single, c.distinct),
    }
}

fn opts() -> BoxedStrategy<Vec<(String, String)>> {
    prop_oneof![
        3 => Just(vec![]),
        1 => Just(vec![("blksize".to_string(), "8".to_string())]),
        1 => Just(vec![("blksize".to_string(), "1024".to_string()), ("windowsize".to_string(), "4".to_string())]),
        1 => Just(vec![("tsize".to_string(), "0".to_string()), ("windowsize".to_string(), "2".to_string())]),
        1 => Just(vec![("timeout".to_string(), "2".to_string())]),
        // tsize as real clients send it: the length of the upload (placeholder, replaced per step)
        2 => Just(vec![("tsize".to_string(), "LEN".to_string())]),
        1 => Just(vec![("blksize".to_string(), "1024".to_string()), ("tsize".to_string(), "LEN".to_string())]),
    ]
    .boxed()
}

pub fn strategy() -> BoxedStrategy<Case> {
    let step = (any::<bool>(), 0u8..14, opts(), prop::sample::select(vec![0usize, 1, 40, 100, 512, 600, 2000, 3500]), prop_oneof![9 => Just(None), 1 => (0usize..3).prop_map(Some)], prop_oneof![3 => Just(None), 1 => (0u8..6).prop_map(Some)], prop_oneof![5 => Just(None), 1 => any::<u16>().prop_map(Some)]).prop_map(|(write, target, opts, upload_len, abort_after, bad_opt, replaced_len)| {
        // small blksize with a long upload would need hundreds of round trips
        let upload_len = if opts.iter().any(|(n, v)| n == "blksize" && v == "8") { upload_len.min(100) } else { upload_len };
        let opts: Vec<(String, String)> = opts.into_iter().map(|(n, v)| if v == "LEN" { (n, if write { upload_len.to_string() } else { "0".to_string() }) } else { (n, v) }).collect();
        Step { write, target, opts, upload_len, abort_after, bad_opt, replaced_len }
    });
    (prop_oneof![3 => Just(false), 1 => Just(true)], any::<bool>(), any::<bool>(), any::<bool>(), any::<bool>(), proptest::collection::vec(step, 1..12), any::<u64>())
        .prop_map(|(read_only, overwrite, keep, single, distinct, steps, seed)| Case {
            read_only,
            overwrite,
            keep,
            single,
            distinct,
            steps,
            seed,
        })
        .boxed()
}

/// the whole decision table once: every configuration x request kind x target, one request per fresh server
fn decision_table() -> Vec<Case> {
    let mut out = vec![];
    for bits in 0u8..32 {
        let (read_only, overwrite, keep, single, distinct) = (bits & 1 != 0, bits & 2 != 0, bits & 4 != 0, bits & 8 != 0, bits & 16 != 0);
        for write in [false, true] {
            for target in 0u8..14 {
                // plain, and (where the request must be refused) with an option value the server cannot honour
                for bad_opt in [None, Some((bits + target) % 6)] {
                    out.push(Case {
                        read_only,
                        overwrite,
                        keep,
                        single,
                        distinct,
                        // the request under test, then a read of a served file (the server still works and serves the right bytes)
                        steps: vec![Step { write, target, opts: vec![], upload_len: 700, abort_after: None, bad_opt, replaced_len: None }, Step { write: false, target: 0, opts: vec![], upload_len: 0, abort_after: None, bad_opt: None, replaced_len: None }],
                        seed: 6 + bits as u64 * 100 + target as u64,
                    });
                }
            }
        }
    }
    out
}

pub fn run(ctx: &Ctx) {
    ctx.set_rule("exhaustive: the whole decision table once (32 configurations x RRQ/WRQ x 14 targets x {plain, with an unhonourable option value}, one request per fresh server); model-based random: per case a fresh real tftpd with a generated configuration {read-only, overwrite, keep-on-error, single/multi port, shared/distinct directories} and a history of 1-11 requests, each RRQ or WRQ of a target in {existing short, existing long, missing, in subdirectory existing/missing, existing zero-length, leading-slash spelling, backslash spellings of an existing / a missing name in the subdirectory and of an existing name with a leading backslash} with one of 7 option sets, and - where the request must be refused - in a quarter of the steps additionally an option value the server cannot honour (blksize 7/65465, timeout 0/256, windowsize 0/65536: the refusal must come all the same); uploads of 0..3500 bytes are completed (10% are aborted by a client ERROR); before one read request in six the served file is replaced on disk, and an acknowledged tsize must be the size the file has at that moment. A reference decision table predicts refusal (ERROR 2 read-only / ERROR 6 exists without overwrite / ERROR 1 not found - from the listening port, followed by nothing) or acceptance; a model filesystem is updated and compared with the real send and receive trees (every file, every byte) after every step, so a refused request that changes anything, an overwrite that leaves old bytes behind, or a wrong download is caught at the step where it happens. Non-trivial = the history contains a refusal and a completed transfer; distinct = distinct cases.");
    let dirs = DirPool::new(ctx, "c06");
    let table = decision_table();
    enumerate(ctx, "exh-decision-table", &table, true, |c, o| dirs.with(|d| judge(d, c, o)));
    explore_n(ctx, "random", ctx.tier.pick(3_000, 120_000), shards(), 48, strategy, |c: &Case, o| dirs.with(|d| judge(d, c, o)));
}

pub fn replay(ctx: &Ctx, part: &str, case: &Value) -> bool {
    let dirs = DirPool::new(ctx, "c06");
    replay_one(ctx, part, case, |c: &Case, o| dirs.with(|d| judge(d, c, o)))
}
