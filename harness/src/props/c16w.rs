//! C16 wire part: --duplicate-packets N at the server level.

use crate::common::*;
use crate::refcodec::{self, RDec, RPacket};
use crate::viol;
use crate::wclient;
use crate::wire::{self, Client, Server, StartError};
use serde::{Deserialize, Serialize};
use serde_json::Value;
use std::path::Path;
use std::time::Duration;

#[derive(Clone, Debug, Serialize, Deserialize)]
pub struct Case {
    /// raw value given to --duplicate-packets
    pub n: String,
    pub single: bool,
    pub with_options: bool,
}

fn copies_from(cl: &Client, first_wait: Duration, quiet: Duration) -> (Vec<Vec<u8>>, Option<std::net::SocketAddr>) {
    let mut out = vec![];
    let mut from = None;
    if let Some((b, f)) = cl.recv(first_wait) {
        out.push(b);
        from = Some(f);
        while let Some((b, _)) = cl.recv(quiet) {
            out.push(b);
            if out.len() > 2000 {
                break;
            }
        }
    }
    (out, from)
}

fn copies(cl: &Client, first_wait: Duration, quiet: Duration) -> Vec<Vec<u8>> {
    let mut out = vec![];
    if let Some((b, _)) = cl.recv(first_wait) {
        out.push(b);
        while let Some((b, _)) = cl.recv(quiet) {
            out.push(b);
            if out.len() > 2000 {
                break;
            }
        }
    }
    out
}

fn run_case(dir: &Path, c: &Case) -> Result<Vec<&'static str>, (String, String)> {
    let root = dir.join("c16w");
    let _ = std::fs::remove_dir_all(&root);
    let d = root.join("d");
    std::fs::create_dir_all(&d).unwrap();
    let file = content(16, 40);
    std::fs::write(d.join("f.bin"), &file).unwrap();
    let mut args = vec![wire::s("-d"), d.to_string_lossy().to_string(), wire::s("--duplicate-packets"), c.n.clone()];
    if c.single {
        args.push(wire::s("-s"));
    }
    let parsed: Option<u64> = c.n.parse().ok();
    let must_reject = !matches!(parsed, Some(v) if v < 255);
    let mut srv = match Server::start(&args, &root) {
        Ok(s) => {
            if must_reject {
                return Err(("accepted-invalid-n".into(), format!("tftpd started with --duplicate-packets {}", c.n)));
            }
            s
        }
        Err(StartError::Exited(code, e)) => {
            let _ = std::fs::remove_dir_all(&root);
            if must_reject {
                if code == 0 {
                    return Err(("rejected-with-exit-0".into(), format!("--duplicate-packets {} was rejected but the exit status is 0", c.n)));
                }
                return Ok(vec!["rejected-at-start-up"]);
            }
            return Err(("rejected-valid-n".into(), format!("tftpd exited with {} for --duplicate-packets {}: {}", code, c.n, e)));
        }
        Err(StartError::Harness(e)) => return Err(("harness".into(), e)),
    };
    let n = parsed.unwrap() as usize;
    // copies are 1 ms apart; a generous quiet period so that a loaded machine cannot split a run
    let quiet = Duration::from_millis(300);
    let opts: Vec<(String, String)> = if c.with_options { vec![("blksize".into(), "1024".into())] } else { vec![] };
    // ---- download
    let cl = Client::new();
    cl.send(&wclient::request_bytes(false, "f.bin", &opts), srv.addr);
    let (first, first_from) = copies_from(&cl, Duration::from_secs(3), quiet);
    if c.with_options {
        if first.len() != 1 || !matches!(refcodec::decode(&first[0]), RDec::Ok(RPacket::Oack(_))) {
            return Err(("initial-reply-multiplicity".into(), format!("N={}: the OACK arrived {} time(s) (expected once): {:?}", n, first.len(), first.iter().map(|b| hex(b)).collect::<Vec<_>>())));
        }
        // ACK 0 -> DATA 1 x (N+1)
        let Some(peer) = first_from else { return Err(("harness".into(), "no source address".into())) };
        cl.send(&refcodec::ack(0), peer);
        let data1 = copies(&cl, Duration::from_secs(3), quiet);
        check_run(&data1, n + 1, "DATA 1 after ACK 0", |p| matches!(p, RDec::Ok(RPacket::Data { block: 1, .. })))?;
        cl.send(&refcodec::ack(1), peer);
    } else {
        check_run(&first, n + 1, "DATA 1 (first reply to a plain RRQ is a data block)", |p| matches!(p, RDec::Ok(RPacket::Data { block: 1, .. })))?;
    }
    // ---- refusal: exactly one ERROR
    let cl2 = Client::new();
    cl2.send(&wclient::request_bytes(false, "missing.bin", &[]), srv.addr);
    let errs = copies(&cl2, Duration::from_secs(3), quiet);
    if errs.len() != 1 || !matches!(refcodec::decode(&errs[0]), RDec::Ok(RPacket::Error { code: 1, .. })) {
        return Err(("initial-reply-multiplicity".into(), format!("N={}: the ERROR reply arrived {} time(s) (expected once)", n, errs.len())));
    }
    // ---- upload: ACK 0 / OACK once, ACK 1 x (N+1)
    let cl3 = Client::new();
    cl3.send(&wclient::request_bytes(true, "up.bin", &opts), srv.addr);
    let mut firsts = vec![];
    let mut peer3 = None;
    if let Some((b, f)) = cl3.recv(Duration::from_secs(3)) {
        firsts.push(b);
        peer3 = Some(f);
        while let Some((b, _)) = cl3.recv(quiet) {
            firsts.push(b);
        }
    }
    if firsts.len() != 1 {
        return Err(("initial-reply-multiplicity".into(), format!("N={}: the reply to the WRQ arrived {} time(s) (expected once)", n, firsts.len())));
    }
    cl3.send(&refcodec::data(1, b"tiny upload"), peer3.unwrap());
    let acks = copies(&cl3, Duration::from_secs(3), quiet);
    check_run(&acks, n + 1, "ACK 1 of an upload", |p| matches!(p, RDec::Ok(RPacket::Ack(1))))?;
    let stored = std::fs::read(d.join("up.bin")).unwrap_or_default();
    if stored != b"tiny upload" {
        return Err(("dup-mode-upload".into(), format!("N={}: stored upload is {:?}", n, String::from_utf8_lossy(&stored))));
    }
    if let Some(st) = srv.exit_status() {
        return Err(("server-terminated".into(), format!("tftpd exited ({})", st)));
    }
    drop(srv);
    let _ = std::fs::remove_dir_all(&root);
    Ok(vec!["multiplicity-checked"])
}

fn check_run(got: &[Vec<u8>], want: usize, what: &str, is: impl Fn(&RDec) -> bool) -> Result<(), (String, String)> {
    let all_same = got.windows(2).all(|w| w[0] == w[1]);
    if got.len() != want || !all_same || !got.first().map(|b| is(&refcodec::decode(b))).unwrap_or(false) {
        return Err(("wire-S9".into(), format!("{}: {} datagram(s) arrived back to back (identical: {}), expected exactly {} copies; first = {}", what, got.len(), all_same, want, got.first().map(|b| hex(b)).unwrap_or_default())));
    }
    Ok(())
}

pub fn judge(dir: &Path, c: &Case, obs: &mut Obs) -> Judge {
    obs.class(if c.single { "wire-single-port" } else { "wire-multi-port" });
    obs.nontrivial = true;
    let r = match run_case(dir, c) {
        Err((sig, d)) if sig != "harness" => match run_case(dir, c) {
            Ok(k) => {
                obs.inconclusive = Some(format!("failed once ({}: {}), passed on the isolated re-run", sig, d));
                Ok(k)
            }
            other => other,
        },
        other => other,
    };
    match r {
        Ok(k) => {
            for x in k {
                obs.class(x);
            }
            Ok(())
        }
        Err((sig, d)) if sig == "harness" => {
            obs.inconclusive = Some(d);
            Ok(())
        }
        Err((sig, d)) => viol!(sig, "{} | --duplicate-packets {} single={} options={}", d, c.n, c.single, c.with_options),
    }
}

pub fn run_wire(ctx: &Ctx) {
    let dirs = DirPool::new(ctx, "c16w");
    let mut cases = vec![];
    for n in ["0", "1", "2", "3", "254", "255", "256", "-1", "1000", "x"] {
        for single in [false, true] {
            for with_options in [false, true] {
                cases.push(Case { n: n.to_string(), single, with_options });
            }
        }
    }
    enumerate(ctx, "wire-duplicate-packets", &cases, true, |c, o| dirs.with(|d| judge(d, c, o)));
}

pub fn replay(ctx: &Ctx, part: &str, case: &Value) -> bool {
    let dirs = DirPool::new(ctx, "c16w");
    match part {
        "wire-duplicate-packets" => replay_one(ctx, part, case, |c: &Case, o| dirs.with(|d| judge(d, c, o))),
        _ => {
            ctx.say(&format!("unknown part {}", part));
            std::process::exit(2)
        }
    }
}
