//! C16 wire part: --duplicate-packets N at the server level.

use crate::common::*;
use crate::refcodec::{self, RDec, RPacket};
use crate::viol;
use crate::wclient;
use crate::wire::{self, Client, Server, StartError};
use serde::{Deserialize, Serialize};
use serde_json::Value;
use std::path::Path;
#[allow(unused_imports)]
use crate::common::Tier;
use std::time::Duration;

#[derive(Clone, Debug, Serialize, Deserialize)]
pub struct Case {
    /// raw value given to --duplicate-packets
    pub n: String,
    pub single: bool,
    pub with_options: bool,
    /// 0 = multiplicity grid; 1 = a two-window upload with a window of 300 blocks; 2 = a 600-block window download with a stale ACK after the window (real elapsed time); 3 = the client leaves after the final ACK; 4 = read-only server: refusals exactly once
    #[serde(default)]
    pub scenario: u8,
}

fn copies_from(cl: &Client, first_wait: Duration, quiet: Duration) -> (Vec<Vec<u8>>, Option<std::net::SocketAddr>) {
    let mut out = vec![];
    let mut from = None;
    if let Some((b, f)) = cl.recv(first_wait) {
        out.push(b);
        from = Some(f);
        while let Some((b, _)) = cl.recv(quiet) {
            out.push(b);
            if out.len() > 2000 {
                break;
            }
        }
    }
    (out, from)
}

fn copies(cl: &Client, first_wait: Duration, quiet: Duration) -> Vec<Vec<u8>> {
    let mut out = vec![];
    if let Some((b, _)) = cl.recv(first_wait) {
        out.push(b);
        while let Some((b, _)) = cl.recv(quiet) {
            out.push(b);
            if out.len() > 2000 {
                break;
            }
        }
    }
    out
}

fn run_case(dir: &Path, c: &Case) -> Result<Vec<&'static str>, (String, String)> {
    let root = dir.join("c16w");
    let _ = std::fs::remove_dir_all(&root);
    let d = root.join("d");
    std::fs::create_dir_all(&d).unwrap();
    let file = content(16, 40);
    std::fs::write(d.join("f.bin"), &file).unwrap();
    let mut args = vec![wire::s("-d"), d.to_string_lossy().to_string(), wire::s("--duplicate-packets"), c.n.clone()];
    if c.single {
        args.push(wire::s("-s"));
    }
    if c.scenario == 4 {
        args.push(wire::s("-r"));
    }
    let parsed: Option<u64> = c.n.parse().ok();
    let must_reject = !matches!(parsed, Some(v) if v < 255);
    let mut srv = match Server::start(&args, &root) {
        Ok(s) => {
            if must_reject {
                return Err(("accepted-invalid-n".into(), format!("tftpd started with --duplicate-packets {}", c.n)));
            }
            s
        }
        Err(StartError::Exited(code, e)) => {
            let _ = std::fs::remove_dir_all(&root);
            if must_reject {
                if code == 0 {
                    return Err(("rejected-with-exit-0".into(), format!("--duplicate-packets {} was rejected but the exit status is 0", c.n)));
                }
                return Ok(vec!["rejected-at-start-up"]);
            }
            return Err(("rejected-valid-n".into(), format!("tftpd exited with {} for --duplicate-packets {}: {}", code, c.n, e)));
        }
        Err(StartError::Harness(e)) => return Err(("harness".into(), e)),
    };
    let n = parsed.unwrap() as usize;
    if c.scenario == 1 {
        let r = big_upload(&srv, &d, n);
        let tail = srv.stderr_tail();
        drop(srv);
        let _ = std::fs::remove_dir_all(&root);
        return r.map_err(|(s, m)| (s, format!("{} | stderr: {}", m, tail)));
    }
    if c.scenario == 3 {
        let r = client_leaves_after_final_ack(&srv, &d, n);
        let tail = srv.stderr_tail();
        drop(srv);
        let _ = std::fs::remove_dir_all(&root);
        return r.map_err(|(s, m)| (s, format!("{} | stderr: {}", m, tail)));
    }
    if c.scenario == 4 {
        let r = refusals_once(&srv, n, true);
        let tail = srv.stderr_tail();
        drop(srv);
        let _ = std::fs::remove_dir_all(&root);
        return r.map_err(|(s, m)| (s, format!("{} | stderr: {}", m, tail)));
    }
    if c.scenario == 2 {
        let r = stale_ack_after_long_window(&srv, &d, n);
        let tail = srv.stderr_tail();
        drop(srv);
        let _ = std::fs::remove_dir_all(&root);
        return r.map_err(|(s, m)| (s, format!("{} | stderr: {}", m, tail)));
    }
    // copies are 1 ms apart; a generous quiet period so that a loaded machine cannot split a run
    let quiet = Duration::from_millis(300);
    let opts: Vec<(String, String)> = if c.with_options { vec![("blksize".into(), "1024".into())] } else { vec![] };
    // ---- download
    let cl = Client::new();
    cl.send(&wclient::request_bytes(false, "f.bin", &opts), srv.addr);
    let (first, first_from) = copies_from(&cl, Duration::from_secs(3), quiet);
    if c.with_options {
        if first.len() != 1 || !matches!(refcodec::decode(&first[0]), RDec::Ok(RPacket::Oack(_))) {
            return Err(("initial-reply-multiplicity".into(), format!("N={}: the OACK arrived {} time(s) (expected once): {:?}", n, first.len(), first.iter().map(|b| hex(b)).collect::<Vec<_>>())));
        }
        // ACK 0 -> DATA 1 x (N+1)
        let Some(peer) = first_from else { return Err(("harness".into(), "no source address".into())) };
        cl.send(&refcodec::ack(0), peer);
        let data1 = copies(&cl, Duration::from_secs(3), quiet);
        check_run(&data1, n + 1, "DATA 1 after ACK 0", |p| matches!(p, RDec::Ok(RPacket::Data { block: 1, .. })))?;
        cl.send(&refcodec::ack(1), peer);
    } else {
        check_run(&first, n + 1, "DATA 1 (first reply to a plain RRQ is a data block)", |p| matches!(p, RDec::Ok(RPacket::Data { block: 1, .. })))?;
    }
    // ---- refusal: exactly one ERROR
    let cl2 = Client::new();
    cl2.send(&wclient::request_bytes(false, "missing.bin", &[]), srv.addr);
    let errs = copies(&cl2, Duration::from_secs(3), quiet);
    if errs.len() != 1 || !matches!(refcodec::decode(&errs[0]), RDec::Ok(RPacket::Error { code: 1, .. })) {
        return Err(("initial-reply-multiplicity".into(), format!("N={}: the ERROR reply arrived {} time(s) (expected once)", n, errs.len())));
    }
    // ---- the other refusal of a writable server: the name exists and --overwrite is not given
    refusals_once(&srv, n, false)?;
    // ---- upload: ACK 0 / OACK once, ACK 1 x (N+1)
    let cl3 = Client::new();
    cl3.send(&wclient::request_bytes(true, "up.bin", &opts), srv.addr);
    let mut firsts = vec![];
    let mut peer3 = None;
    if let Some((b, f)) = cl3.recv(Duration::from_secs(3)) {
        firsts.push(b);
        peer3 = Some(f);
        while let Some((b, _)) = cl3.recv(quiet) {
            firsts.push(b);
        }
    }
    if firsts.len() != 1 {
        return Err(("initial-reply-multiplicity".into(), format!("N={}: the reply to the WRQ arrived {} time(s) (expected once)", n, firsts.len())));
    }
    cl3.send(&refcodec::data(1, b"tiny upload"), peer3.unwrap());
    let acks = copies(&cl3, Duration::from_secs(3), quiet);
    check_run(&acks, n + 1, "ACK 1 of an upload", |p| matches!(p, RDec::Ok(RPacket::Ack(1))))?;
    let stored = std::fs::read(d.join("up.bin")).unwrap_or_default();
    if stored != b"tiny upload" {
        return Err(("dup-mode-upload".into(), format!("N={}: stored upload is {:?}", n, String::from_utf8_lossy(&stored))));
    }
    if let Some(st) = srv.exit_status() {
        return Err(("server-terminated".into(), format!("tftpd exited ({})", st)));
    }
    drop(srv);
    let _ = std::fs::remove_dir_all(&root);
    Ok(vec!["multiplicity-checked"])
}

/// every copy of every ACK keeps the worker busy for N ms while the client already sends its next 300 blocks
fn big_upload(srv: &Server, d: &Path, n: usize) -> Result<Vec<&'static str>, (String, String)> {
    let data = content(1600 + n as u64, 64 * 700 + 11);
    let cl = Client::new();
    let opts = vec![("blksize".to_string(), "64".to_string()), ("windowsize".to_string(), "300".to_string())];
    let neg = match wclient::start(&cl, srv.addr, true, "big.bin", &opts, Duration::from_secs(3)) {
        wclient::Start::Accepted { neg, .. } => neg,
        other => return Err(("harness".into(), format!("upload not accepted: {:?}", other))),
    };
    // paced sending (40 datagrams, then 3 ms): the kernel's socket buffer never overflows, so nothing is lost on loopback,
    // while a worker that is busy repeating an ACK N+1 times does not read its queue for N ms
    let blk = neg.blk;
    let n_blocks = data.len() / blk + 1;
    let mut next = 1usize;
    while next <= n_blocks {
        let count = neg.ws.min(n_blocks + 1 - next);
        let send_window = || {
            for i in 0..count {
                let abs = next + i;
                let s0 = (abs - 1) * blk;
                let e0 = (s0 + blk).min(data.len());
                cl.send(&refcodec::data(abs as u16, &data[s0..e0]), neg.peer);
                if i % 40 == 39 {
                    std::thread::sleep(Duration::from_millis(3));
                }
            }
        };
        send_window();
        let last = next + count - 1;
        let t0 = std::time::Instant::now();
        let mut resent = 0u32;
        loop {
            match cl.recv(Duration::from_millis(500)) {
                Some((b, _)) => match refcodec::decode(&b) {
                    RDec::Ok(RPacket::Ack(k)) if k as usize == last => break,
                    RDec::Ok(RPacket::Ack(_)) => continue,
                    other => return Err(("dup-mode-upload".into(), format!("N={}: a loss-free paced upload with windowsize {} was answered with {:?} after blocks {}..{}", n, neg.ws, other, next, last))),
                },
                None => {
                    if t0.elapsed() > Duration::from_secs(12) {
                        return Err(("dup-mode-upload".into(), format!("N={}: no ACK {} for blocks {}..{} of a paced upload (windowsize {}) although the window was retransmitted every 1.5 s", n, last, next, last, neg.ws)));
                    }
                    // like any conformant sender: retransmit the window after a timeout (a worker that was busy repeating its
                    // ACK may have let its socket buffer overflow)
                    if t0.elapsed() > Duration::from_millis(1500 * (1 + resent as u64)) {
                        resent += 1;
                        send_window();
                    }
                }
            }
        }
        next += count;
    }
    // the last ACK copies are still on their way; the file is complete at the first copy
    let stored = std::fs::read(d.join("big.bin")).unwrap_or_default();
    if stored != data {
        return Err(("dup-mode-upload".into(), format!("N={}: stored {} bytes, sent {}", n, stored.len(), data.len())));
    }
    Ok(vec!["big-window-upload-in-duplicate-mode"])
}

/// a conformant uploader that does not dally: it closes its socket as soon as the first copy of the final ACK has arrived
/// (the remaining copies then hit a closed port)
fn client_leaves_after_final_ack(srv: &Server, d: &Path, n: usize) -> Result<Vec<&'static str>, (String, String)> {
    let data = content(1603 + n as u64, 1300);
    {
        let cl = Client::new();
        let neg = match wclient::start(&cl, srv.addr, true, "left.bin", &[], Duration::from_secs(3)) {
            wclient::Start::Accepted { neg, .. } => neg,
            other => return Err(("harness".into(), format!("upload not accepted: {:?}", other))),
        };
        let mut srcs = vec![];
        if let Err(e) = wclient::upload(&cl, &neg, &data, None, &mut srcs) {
            return Err(("dup-mode-upload".into(), format!("N={}: plain upload failed: {}", n, e)));
        }
        // the socket is closed here, right after the first copy of the final ACK
    }
    std::thread::sleep(Duration::from_millis(30 + 2 * n as u64));
    match std::fs::read(d.join("left.bin")) {
        Ok(stored) if stored == data => Ok(vec!["client-left-after-final-ack"]),
        Ok(stored) => Err(("completed-upload-lost".into(), format!("N={}: the upload completed (final ACK received) and the client closed its socket; the stored file now has {} bytes, sent {}", n, stored.len(), data.len()))),
        Err(_) => Err(("completed-upload-lost".into(), format!("N={}: the upload completed (the client received the final ACK) and the client closed its socket; the file is gone afterwards", n))),
    }
}

/// sending one window takes longer than the negotiated timeout (600 blocks x (N+1) copies x 1 ms): a stale ACK right after
/// the window must still not trigger a retransmission - the timeout counts from the end of the last transmission
fn stale_ack_after_long_window(srv: &Server, d: &Path, n: usize) -> Result<Vec<&'static str>, (String, String)> {
    let data = content(1601, 8 * 1200 + 3);
    std::fs::write(d.join("long.bin"), &data).unwrap();
    let cl = Client::new();
    if (cl.force_rcvbuf(32 << 20) as u64) < (8 << 20) {
        return Ok(vec!["timer-case-skipped-small-rcvbuf"]);
    }
    let opts = vec![("blksize".to_string(), "8".to_string()), ("windowsize".to_string(), "600".to_string()), ("timeout".to_string(), "1".to_string())];
    let neg = match wclient::start(&cl, srv.addr, false, "long.bin", &opts, Duration::from_secs(3)) {
        wclient::Start::Accepted { neg, .. } => neg,
        other => return Err(("harness".into(), format!("download not accepted: {:?}", other))),
    };
    let mut copies = vec![0usize; 1203];
    let collect = |upto: usize, copies: &mut Vec<usize>, limit: Duration| -> bool {
        // until every block <= upto has arrived N+1 times
        let t0 = std::time::Instant::now();
        while t0.elapsed() < limit {
            if let Some((b, _)) = cl.recv(Duration::from_millis(200)) {
                if let RDec::Ok(RPacket::Data { block, .. }) = refcodec::decode(&b) {
                    if (block as usize) < copies.len() {
                        copies[block as usize] += 1;
                    }
                }
            }
            if (1..=upto).all(|k| copies[k] >= n + 1) {
                return true;
            }
        }
        false
    };
    if !collect(600, &mut copies, Duration::from_secs(8)) {
        return Err(("harness".into(), "first window incomplete".into()));
    }
    cl.send(&refcodec::ack(600), neg.peer);
    if !collect(1200, &mut copies, Duration::from_secs(8)) {
        return Err(("harness".into(), "second window incomplete".into()));
    }
    // a stale duplicate of the previous acknowledgement, right after the window
    cl.send(&refcodec::ack(600), neg.peer);
    let extra = cl.drain(Duration::from_millis(400));
    let resent: Vec<u16> = extra.iter().filter_map(|(b, _)| if let RDec::Ok(RPacket::Data { block, .. }) = refcodec::decode(b) { Some(block) } else { None }).collect();
    cl.send(&refcodec::ack(1200), neg.peer);
    let _ = collect(1201, &mut copies, Duration::from_secs(4));
    cl.send(&refcodec::ack(1201), neg.peer);
    if !resent.is_empty() {
        return Err(("wire-retransmit-on-stale-ack".into(), format!("N={}: after a stale ACK 600 that followed a {}-datagram window the server re-sent {} DATA datagrams (first {:?}) although the timeout of 1 s had not elapsed since the end of the last transmission", n, 600 * (n + 1), resent.len(), &resent[..resent.len().min(4)])));
    }
    // (the exact number of copies is checked by the multiplicity grid; here a slow reader could legitimately see a timeout retransmission)
    Ok(vec!["stale-ack-after-long-window"])
}

/// every kind of refused request is answered with exactly one ERROR, whatever N is (read-only server: WRQ with and
/// without options; writable server without --overwrite: WRQ naming an existing file)
fn refusals_once(srv: &Server, n: usize, read_only: bool) -> Result<Vec<&'static str>, (String, String)> {
    let quiet = Duration::from_millis(300);
    let reqs: Vec<(&str, Vec<(String, String)>, u16)> = if read_only {
        vec![("new.bin", vec![], 2), ("f.bin", vec![("blksize".into(), "1024".into())], 2), ("new2.bin", vec![("tsize".into(), "10".into()), ("windowsize".into(), "2".into())], 2)]
    } else {
        vec![("f.bin", vec![], 6), ("f.bin", vec![("blksize".into(), "1024".into())], 6)]
    };
    for (name, opts, code) in reqs {
        let cl = Client::new();
        cl.send(&wclient::request_bytes(true, name, &opts), srv.addr);
        let errs = copies(&cl, Duration::from_secs(3), quiet);
        let ok = errs.len() == 1 && matches!(refcodec::decode(&errs[0]), RDec::Ok(RPacket::Error { code: c, .. }) if c == code);
        if !ok {
            return Err(("initial-reply-multiplicity".into(), format!("N={}: the refusal (ERROR {}) of WRQ {:?} {:?} arrived {} time(s) (expected exactly once): {:?}", n, code, name, opts, errs.len(), errs.iter().map(|b| hex(&b[..b.len().min(12)])).collect::<Vec<_>>())));
        }
    }
    if read_only {
        // the read-only server still serves downloads, every DATA N+1 times
        let cl = Client::new();
        cl.send(&wclient::request_bytes(false, "f.bin", &[]), srv.addr);
        let first = copies(&cl, Duration::from_secs(3), quiet);
        check_run(&first, n + 1, "DATA 1 from a read-only server", |p| matches!(p, RDec::Ok(RPacket::Data { block: 1, .. })))?;
    }
    Ok(vec!["refusals-once"])
}

fn check_run(got: &[Vec<u8>], want: usize, what: &str, is: impl Fn(&RDec) -> bool) -> Result<(), (String, String)> {
    let all_same = got.windows(2).all(|w| w[0] == w[1]);
    if got.len() != want || !all_same || !got.first().map(|b| is(&refcodec::decode(b))).unwrap_or(false) {
        return Err(("wire-S9".into(), format!("{}: {} datagram(s) arrived back to back (identical: {}), expected exactly {} copies; first = {}", what, got.len(), all_same, want, got.first().map(|b| hex(b)).unwrap_or_default())));
    }
    Ok(())
}

pub fn judge(dir: &Path, c: &Case, obs: &mut Obs) -> Judge {
    obs.class(if c.single { "wire-single-port" } else { "wire-multi-port" });
    obs.nontrivial = true;
    let r = match run_case(dir, c) {
        Err((sig, d)) if sig != "harness" => match run_case(dir, c) {
            Ok(k) => {
                obs.inconclusive = Some(format!("failed once ({}: {}), passed on the isolated re-run", sig, d));
                Ok(k)
            }
            other => other,
        },
        other => other,
    };
    match r {
        Ok(k) => {
            for x in k {
                obs.class(x);
            }
            Ok(())
        }
        Err((sig, d)) if sig == "harness" => {
            obs.inconclusive = Some(d);
            Ok(())
        }
        Err((sig, d)) => viol!(sig, "{} | --duplicate-packets {} single={} options={}", d, c.n, c.single, c.with_options),
    }
}

pub fn run_wire(ctx: &Ctx) {
    let dirs = DirPool::new(ctx, "c16w");
    let mut cases = vec![];
    for n in ["0", "1", "2", "3", "254", "255", "256", "-1", "1000", "x"] {
        for single in [false, true] {
            for with_options in [false, true] {
                cases.push(Case { n: n.to_string(), single, with_options, scenario: 0 });
            }
        }
    }
    for single in [false, true] {
        for n in ["2", "60"] {
            cases.push(Case { n: n.to_string(), single, with_options: true, scenario: 1 });
        }
    }
    for single in [false, true] {
        for n in ["1", "2", "3", "60"] {
            cases.push(Case { n: n.to_string(), single, with_options: false, scenario: 3 });
        }
    }
    for single in [false, true] {
        for n in ["0", "1", "3", "10"] {
            cases.push(Case { n: n.to_string(), single, with_options: false, scenario: 4 });
        }
    }
    cases.push(Case { n: "2".to_string(), single: false, with_options: true, scenario: 2 });
    if ctx.tier == Tier::Thorough {
        cases.push(Case { n: "2".to_string(), single: true, with_options: true, scenario: 2 });
        cases.push(Case { n: "1".to_string(), single: false, with_options: true, scenario: 2 });
    }
    enumerate(ctx, "wire-duplicate-packets", &cases, true, |c, o| dirs.with(|d| judge(d, c, o)));
}

pub fn replay(ctx: &Ctx, part: &str, case: &Value) -> bool {
    let dirs = DirPool::new(ctx, "c16w");
    match part {
        "wire-duplicate-packets" => replay_one(ctx, part, case, |c: &Case, o| dirs.with(|d| judge(d, c, o))),
        _ => {
            ctx.say(&format!("unknown part {}", part));
            std::process::exit(2)
        }
    }
}
