//! C18 Window buffer contract (model-based, reader and writer machines).

use crate::common::*;
use crate::viol;
use proptest::prelude::*;
use serde::{Deserialize, Serialize};
use serde_json::Value;
use std::collections::VecDeque;
use std::fs::{self, File};
use std::path::Path;
use tftpd::Window;

#[derive(Clone, Debug, Serialize, Deserialize, PartialEq)]
pub enum Op {
    Fill,
    Remove(u16),
    /// add a piece of this length (content derived from a counter)
    Add(u8),
    Empty,
    /// add this many pieces of 1..3 bytes in a row (bulk; stops silently when the buffer is full)
    AddMany(u16),
    /// add one piece of this many bytes (big pieces: flushes of more than 1 MiB)
    AddSized(u32),
}

#[derive(Clone, Debug, Serialize, Deserialize)]
pub struct Case {
    pub writer: bool,
    pub size: u16,
    pub chunk: usize,
    pub file_len: usize,
    pub ops: Vec<Op>,
    /// writer machine only: writes beyond this file size fail (RLIMIT_FSIZE in a forked child)
    #[serde(default)]
    pub fsize_limit: Option<u64>,
}

fn piece(counter: usize, len: usize) -> Vec<u8> {
    (0..len).map(|i| (counter * 31 + i * 7 + 1) as u8).collect()
}

const CLASSES: &[&str] = &["big-piece", "fill-after-remove", "fill-after-eof", "remove-too-many", "add-when-full", "bulk-add", "empty-after-2-adds", "writer", "reader", "size-0", "size-65535", "write-limit-hit"];

pub fn judge(dir: &Path, c: &Case, obs: &mut Obs) -> Judge {
    match c.fsize_limit {
        Some(l) if c.writer => in_limited_child(l, obs, CLASSES, |o| judge_unlimited(dir, c, o)),
        _ => judge_unlimited(dir, c, obs),
    }
}

fn judge_unlimited(dir: &Path, c: &Case, obs: &mut Obs) -> Judge {
    let path = dir.join("window.bin");
    let bytes = content(c.size as u64 * 131 + c.chunk as u64, c.file_len);
    let file = if c.writer {
        File::create(&path).expect("create")
    } else {
        fs::write(&path, &bytes).expect("write");
        File::open(&path).expect("open")
    };
    let res = judge_inner(&path, file, &bytes, c, obs);
    let _ = fs::remove_file(&path);
    res
}

fn judge_inner(path: &Path, file: File, bytes: &[u8], c: &Case, obs: &mut Obs) -> Judge {
    let mut w = Window::new(c.size, c.chunk, file);
    let mut model: VecDeque<Vec<u8>> = VecDeque::new();
    let mut cursor = 0usize;
    let mut eof = false;
    let mut written: Vec<u8> = vec![];
    let mut seen_remove = false;
    let mut adds_since_empty = 0;
    let mut counter = 0usize;
    let size = c.size as usize;
    for (step, op) in c.ops.iter().enumerate() {
        match op {
            Op::Fill => {
                if c.writer {
                    continue; // callers never fill a write-only window
                }
                if seen_remove {
                    obs.nontrivial = true;
                    obs.class("fill-after-remove");
                }
                obs.class_if(eof, "fill-after-eof");
                let r = match no_panic(|| w.fill().map_err(|e| e.to_string())) {
                    Ok(r) => r,
                    Err(m) => viol!("window-panic", "fill panicked at step {}: {}", step, m),
                };
                while model.len() < size && !eof {
                    let end = (cursor + c.chunk).min(bytes.len());
                    let p = bytes[cursor..end].to_vec();
                    cursor = end;
                    if p.len() < c.chunk {
                        eof = true;
                    }
                    model.push_back(p);
                }
                match r {
                    Err(e) => viol!("fill-error", "fill failed at step {}: {}", step, e),
                    Ok(true) => {
                        if model.len() != size {
                            viol!("fill-return", "fill returned true (full) at step {} but the buffer should hold {} of {} pieces", step, model.len(), size);
                        }
                    }
                    Ok(false) => {
                        if !eof {
                            viol!("fill-return", "fill returned false at step {} although the file is not exhausted", step);
                        }
                    }
                }
            }
            Op::Remove(k) => {
                seen_remove = true;
                let r = match no_panic(|| w.remove(*k)) {
                    Ok(r) => r,
                    Err(m) => viol!("window-panic", "remove({}) panicked at step {}: {}", k, step, m),
                };
                if *k as usize > model.len() {
                    obs.class("remove-too-many");
                    if r.is_ok() {
                        viol!("remove-contract", "remove({}) succeeded at step {} with only {} pieces buffered", k, step, model.len());
                    }
                } else {
                    if r.is_err() {
                        viol!("remove-contract", "remove({}) failed at step {} with {} pieces buffered", k, step, model.len());
                    }
                    for _ in 0..*k {
                        model.pop_front();
                    }
                }
            }
            Op::Add(n) => {
                counter += 1;
                let p = piece(counter, *n as usize);
                let r = match no_panic(|| w.add(p.clone())) {
                    Ok(r) => r,
                    Err(m) => viol!("window-panic", "add panicked at step {}: {}", step, m),
                };
                if model.len() >= size {
                    obs.class("add-when-full");
                    if r.is_ok() {
                        viol!("add-contract", "add succeeded at step {} on a full buffer (size {})", step, size);
                    }
                } else {
                    if r.is_err() {
                        viol!("add-contract", "add failed at step {} with {} of {} pieces buffered", step, model.len(), size);
                    }
                    model.push_back(p);
                    adds_since_empty += 1;
                }
            }
            Op::AddMany(k) => {
                obs.class("bulk-add");
                for i in 0..*k {
                    if model.len() >= size {
                        break;
                    }
                    counter += 1;
                    let p = piece(counter, 1 + (i as usize % 3));
                    match no_panic(|| w.add(p.clone())) {
                        Ok(Ok(())) => {}
                        Ok(Err(e)) => viol!("add-contract", "add failed at step {} with {} of {} pieces buffered: {}", step, model.len(), size, e),
                        Err(m) => viol!("window-panic", "add panicked at step {}: {}", step, m),
                    }
                    model.push_back(p);
                    adds_since_empty += 1;
                }
            }
            Op::AddSized(n) => {
                counter += 1;
                let p: Vec<u8> = content(counter as u64, *n as usize);
                let r = match no_panic(|| w.add(p.clone())) {
                    Ok(r) => r,
                    Err(m) => viol!("window-panic", "add panicked at step {}: {}", step, m),
                };
                if model.len() >= size {
                    if r.is_ok() {
                        viol!("add-contract", "add succeeded at step {} on a full buffer (size {})", step, size);
                    }
                } else {
                    if r.is_err() {
                        viol!("add-contract", "add failed at step {} with {} of {} pieces buffered", step, model.len(), size);
                    }
                    model.push_back(p);
                    adds_since_empty += 1;
                    obs.class("big-piece");
                }
            }
            Op::Empty => {
                if !c.writer {
                    continue; // callers never empty a read-only window
                }
                if adds_since_empty >= 2 {
                    obs.nontrivial = true;
                    obs.class("empty-after-2-adds");
                }
                adds_since_empty = 0;
                let r = match no_panic(|| w.empty().map_err(|e| e.to_string())) {
                    Ok(r) => r,
                    Err(m) => viol!("window-panic", "empty panicked at step {}: {}", step, m),
                };
                let pending: usize = model.iter().map(|p| p.len()).sum();
                if let Some(limit) = c.fsize_limit {
                    if (written.len() + pending) as u64 > limit {
                        // the write cannot succeed completely: empty must report it, the file stays a prefix of what was to be written
                        obs.class("write-limit-hit");
                        obs.nontrivial = true;
                        let mut want = written.clone();
                        for p in model.iter() {
                            want.extend_from_slice(p);
                        }
                        let on_disk = fs::read(path).unwrap_or_default();
                        if r.is_ok() {
                            viol!("short-write-unreported", "empty returned Ok at step {} although only {} of {} bytes could be written (file size limit {})", step, on_disk.len(), want.len(), limit);
                        }
                        if on_disk.len() > want.len() || on_disk[..] != want[..on_disk.len()] {
                            viol!("file-contents", "after the failed empty the file ({} bytes) is not a prefix of the pieces in order", on_disk.len());
                        }
                        return Ok(());
                    }
                }
                if let Err(e) = r {
                    viol!("empty-error", "empty failed at step {}: {}", step, e);
                }
                for p in model.drain(..) {
                    written.extend_from_slice(&p);
                }
            }
        }
        // observable state after every step
        let got: Vec<Vec<u8>> = w.get_elements().iter().cloned().collect();
        let want: Vec<Vec<u8>> = model.iter().cloned().collect();
        if got != want {
            let sig = if matches!(op, Op::Fill) { "fill-pieces" } else { "queue-contents" };
            viol!(
                sig,
                "after step {} ({:?}) the buffer holds {:?}, the model {:?} (size {}, chunk {}, file {} bytes)",
                step,
                op,
                got.iter().map(|p| hex(p)).collect::<Vec<_>>(),
                want.iter().map(|p| hex(p)).collect::<Vec<_>>(),
                c.size,
                c.chunk,
                c.file_len
            );
        }
        if got.len() > size {
            viol!("over-capacity", "buffer holds {} pieces, size is {}", got.len(), size);
        }
        if w.len() as usize != model.len() || w.is_empty() != model.is_empty() || w.is_full() != (model.len() == size) {
            viol!("queries", "len/is_empty/is_full = {}/{}/{} but the model holds {} of {}", w.len(), w.is_empty(), w.is_full(), model.len(), size);
        }
        if c.writer {
            let on_disk = fs::read(path).unwrap_or_default();
            if on_disk != written {
                viol!("file-contents", "after step {} ({:?}) the file holds {} but the emptied pieces are {}", step, op, hex(&on_disk), hex(&written));
            }
        }
    }
    obs.class(if c.writer { "writer" } else { "reader" });
    obs.class_if(c.size == 0, "size-0");
    obs.class_if(c.size == 65535, "size-65535");
    Ok(())
}

fn op_strategy(writer: bool, size: u16) -> BoxedStrategy<Op> {
    let k = prop_oneof![4 => 0u16..=(size.min(8) + 1), 1 => Just(size), 1 => Just(size.wrapping_add(1)), 1 => Just(65535u16)];
    if writer {
        prop_oneof![
            5 => (0u8..10).prop_map(Op::Add),
            2 => k.prop_map(Op::Remove),
            3 => Just(Op::Empty),
            1 => prop_oneof![1u16..40, 1000u16..1100, 1u16..3000].prop_map(Op::AddMany),
        ]
        .boxed()
    } else {
        prop_oneof![
            5 => Just(Op::Fill),
            4 => k.prop_map(Op::Remove),
            1 => (0u8..10).prop_map(Op::Add),
        ]
        .boxed()
    }
}

pub fn strategy() -> BoxedStrategy<Case> {
    (any::<bool>(), prop_oneof![16 => 0u16..=6, 2 => Just(65535u16), 1 => prop::sample::select(vec![255u16, 256, 1023, 1024, 1025, 1500, 4096])], 1usize..=9)
        .prop_flat_map(|(writer, size, chunk)| {
            // big windows get big files now and then, so that one fill reads hundreds of pieces
            let span = if size > 6 && size < 65535 { size as usize } else { size.min(8) as usize };
            let maxlen = (span + 2) * chunk + 1;
            (
                Just(writer),
                Just(size),
                Just(chunk),
                prop_oneof![
                    3 => 0..=maxlen,
                    2 => (0..=(span + 2)).prop_map(move |k| k * chunk),
                ],
                proptest::collection::vec(op_strategy(writer, size), 0..40),
            )
        })
        .prop_map(|(writer, size, chunk, file_len, ops)| Case {
            writer,
            size,
            chunk,
            file_len,
            // one writer case in four runs under a small file-size limit
            fsize_limit: if writer && (file_len + ops.len()) % 4 == 0 { Some(((file_len * 7 + ops.len() * 3) % 60) as u64) } else { None },
            ops,
        })
        .boxed()
}

/// exhaustive: every sequence of length <= L over a reduced op set, for a grid of parameters
fn exhaustive_cases(l: usize) -> Vec<Case> {
    let reader_ops = [Op::Fill, Op::Remove(1), Op::Remove(2), Op::Add(1)];
    let writer_ops = [Op::Add(2), Op::Add(0), Op::Remove(1), Op::Empty];
    let mut out = vec![];
    for writer in [false, true] {
        let ops = if writer { &writer_ops } else { &reader_ops };
        let mut seqs: Vec<Vec<Op>> = vec![vec![]];
        let mut frontier: Vec<Vec<Op>> = vec![vec![]];
        for _ in 0..l {
            let mut next = vec![];
            for s in &frontier {
                for o in ops.iter() {
                    let mut t = s.clone();
                    t.push(o.clone());
                    next.push(t);
                }
            }
            seqs.extend(next.iter().cloned());
            frontier = next;
        }
        for size in 0u16..=3 {
            for chunk in 1usize..=3 {
                let lens: Vec<usize> = if writer { vec![0] } else { (0..=(size as usize + 2) * chunk + 1).collect() };
                for file_len in lens {
                    for s in &seqs {
                        out.push(Case {
                            writer,
                            size,
                            chunk,
                            file_len,
                            ops: s.clone(),
                            fsize_limit: None,
                        });
                    }
                }
            }
        }
    }
    out
}

/// windows whose content exceeds 1 MiB: big chunks on the reader side, big pieces on the writer side
pub fn big_strategy() -> BoxedStrategy<Case> {
    (any::<bool>(), 18u16..40, prop::sample::select(vec![65464usize, 60001, 40000, 32768]), 0usize..3, proptest::collection::vec(0u16..8, 0..6))
        .prop_map(|(writer, size, chunk, extra, rem)| {
            let mut ops = vec![];
            if writer {
                for _ in 0..size {
                    ops.push(Op::AddSized(chunk as u32));
                }
                ops.push(Op::Empty);
                ops.push(Op::AddSized(chunk as u32 - 1));
                ops.push(Op::Empty);
            } else {
                ops.push(Op::Fill);
                for r in rem {
                    ops.push(Op::Remove(r.min(size)));
                    ops.push(Op::Fill);
                }
            }
            Case { writer, size, chunk, file_len: (size as usize + 3 + extra) * chunk + 17, ops, fsize_limit: None }
        })
        .boxed()
}

pub fn run(ctx: &Ctx) {
    ctx.set_rule("operation sequences over tftpd::Window in the two ways its callers use it (reader: file opened read-only, fill/remove/add; writer: fresh write-only file, add/remove/empty), a quarter of the random writer cases run under a small RLIMIT_FSIZE (a write that cannot complete must be reported by empty, never silently shortened); all compared after every step with a VecDeque reference model plus a cursor into the file bytes (elements, return values, len/is_empty/is_full, file contents). Exhaustive: all sequences up to length L over 4 ops for size 0..3, chunk 1..3 and every file length up to (size+2)*chunk+1; random: sequences up to 40 ops, size 0..6 and 65535, chunk 1..9. Non-trivial = a fill after a remove, or an empty after >=2 adds; distinct = distinct (parameters, sequence).");
    ctx.assume("fill is only exercised on windows over readable files and empty only on writable ones (the callers' use)");
    let dirs = DirPool::new(ctx, "c18");
    let l = ctx.tier.pick(5, 6);
    let cases = exhaustive_cases(l);
    ctx.extra("exhaustive_sequence_length", serde_json::json!(l));
    enumerate(ctx, "exh-sequences", &cases, true, |c, o| dirs.with(|d| judge(d, c, o)));
    explore(ctx, "random", ctx.tier.pick(400_000, 4_000_000), strategy, |c: &Case, o| dirs.with(|d| judge(d, c, o)));
    explore_n(ctx, "big-pieces", ctx.tier.pick(160, 4_000), shards(), 16, big_strategy, |c: &Case, o| dirs.with(|d| judge(d, c, o)));
}

pub fn replay(ctx: &Ctx, part: &str, case: &Value) -> bool {
    let dirs = DirPool::new(ctx, "c18");
    replay_one(ctx, part, case, |c: &Case, o| dirs.with(|d| judge(d, c, o)))
}
