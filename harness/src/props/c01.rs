//! C01 Download fidelity (sim).

use crate::common::*;
use crate::pred;
use crate::sim::{self, After, Role, Scenario, Sev};
use crate::simgen;
use crate::viol;
use proptest::prelude::*;
use serde_json::Value;
use std::path::Path;

pub fn strategy() -> BoxedStrategy<Scenario> {
    (
        simgen::geometry(64),
        any::<u64>(),
        any::<bool>(),
        prop_oneof![
            // (a) faulted conformant peer
            (simgen::fates(40, 8), Just(vec![]), Just(After::Honest)),
            // (b) adversarial script, lossless network
            (Just(vec![]), proptest::collection::vec(simgen::sender_sev(), 0..30), simgen::after()),
            // both (no wrap-around in this generator, so lying ACKs are admissible)
            (simgen::fates(30, 4), proptest::collection::vec(simgen::sender_sev(), 0..20), simgen::after()),
        ],
        (any::<bool>(), any::<bool>()),
        prop_oneof![40 => Just(1u8), 1 => Just(2u8), 1 => Just(3u8)],
    )
        .prop_map(|(geo, seed, hs, (fates, script, after), (gap, dally), repeat)| {
            let mut sc = simgen::scenario(Role::Sender, geo, seed, hs, fates, script, after, (gap, dally, true));
            // duplicate-packets mode is a configuration too (1 ms real sleep per copy: short transfers only)
            if repeat > 1 && sc.nblocks() <= 12 {
                sc.repeat = repeat;
            }
            sc
        })
        .boxed()
}

pub fn judge(dir: &Path, sc: &Scenario, obs: &mut Obs) -> Judge {
    let r = sim::run(sc, dir);
    let (findings, fa) = pred::analyze(sc, &r);
    let n = sc.nblocks();
    obs.shape = fa.shape;
    obs.nontrivial = n >= 2 && (!r.hits.is_empty() || !r.script_used.is_empty() || r.forced_timeouts > 0 || sc.blk != 512 || sc.ws != 1);
    obs.class_if(sc.handshake, "handshake");
    obs.class_if(sc.repeat > 1, "duplicate-packets-mode");
    obs.class_if(sc.file_len == 0, "empty-file");
    obs.class_if(sc.file_len % sc.blk == 0 && sc.file_len > 0, "exact-multiple");
    obs.class_if(sc.file_len < sc.blk, "single-block");
    obs.class_if(!r.hits.is_empty(), "fault-hit");
    obs.class_if(fa.partial_acks > 0, "partial-ack");
    obs.class_if(fa.partial_after_eof > 0, "partial-ack-after-eof");
    obs.class_if(fa.stale_acks + fa.dup_acks > 0, "stale-or-dup-ack");
    obs.class_if(fa.future_acks > 0, "bogus-future-ack");
    obs.class_if(fa.retransmitted_blocks > 0, "retransmission");
    obs.class_if(fa.completed, "completed");
    obs.class_if(sc.ws >= 65534, "ws>=65534");
    obs.class_if(fa.crossed_wrap, "crossed-wrap");
    for f in &findings {
        if f.pred == "S1" || f.pred == "S2" || f.pred == "S11" {
            viol!(format!("sender-{}", f.pred), "{} | scenario blk={} ws={} len={} handshake={}", f.detail, sc.blk, sc.ws, sc.file_len, sc.handshake);
        }
    }
    // a client that reassembles in-order blocks: byte-identical copy or no completed copy
    if r.peer_done && r.peer_data != r.file {
        viol!("corrupted-copy", "the model client completed with {} bytes that differ from the file ({} bytes); blk={} ws={}", r.peer_data.len(), r.file.len(), sc.blk, sc.ws);
    }
    if !r.peer_done && (r.peer_data.len() > r.file.len() || r.peer_data != r.file[..r.peer_data.len()]) {
        viol!("corrupted-copy", "the model client's partial copy ({} bytes) is not a prefix of the file; blk={} ws={}", r.peer_data.len(), sc.blk, sc.ws);
    }
    Ok(())
}

pub fn run(ctx: &Ctx) {
    sim::init();
    ctx.set_rule("the real Worker::send_file under a simulated socket: blksize 8..65464 x windowsize 1..65535 x file sizes around block/window boundaries x with/without OACK handshake; peer = conformant model client behind a fault network (<=8 drop/dup/swap/late fates over the first 40 datagrams of either direction) and/or an adversarial script (<=30 events: full/partial/duplicate/stale/future/raw ACKs, delays, lost ACKs, ERROR, garbage, OACK, stray DATA), then honest completion or silence. Oracle: every emitted DATA carries exactly its slice of the file (S1), no block beyond the final one (S2), a transfer that ends with everything acknowledged has sent its short final block (S11), the model client's reassembled copy is byte-identical or incomplete. A wire part downloads from the real tftpd (both port modes, blksize 8..16384, windowsize 1..6) with a model client that sends partial and duplicate ACKs and checks every received DATA against the file slice of its number. A relay part runs the real tftpc against the real tftpd through a UDP relay that duplicates, reorders and drops datagrams: the client ends with a byte-identical file or with none. Non-trivial = >=2 blocks and (a fault hit, a scripted event was used, or non-default blksize/windowsize); distinct = distinct (scenario, trace shape).");
    ctx.assume("lying acknowledgements are only generated for transfers without block-number wrap-around (16-bit aliasing is undecidable for any implementation)");
    ctx.assume("the virtual clock hook (cfg rs_tftpd_verif) replaces Instant inside send_file only");
    let dirs = DirPool::new(ctx, "c01");
    explore(ctx, "random", ctx.tier.pick(200_000, 4_000_000), strategy, |c: &Scenario, o| dirs.with(|d| judge(d, c, o)));
    // windows of more than 1 MiB / 32 MiB of data (large block sizes) and of more than 32768 blocks
    let huge: Vec<Scenario> = super::c15::huge_window_cases().into_iter().filter(|s| s.role == Role::Sender).collect();
    let nh = ctx.tier.pick(5, huge.len());
    enumerate(ctx, "huge-windows", &huge[..nh], false, |c, o| dirs.with(|d| judge(d, c, o)));
    super::c0xw::run_wire(ctx, false);
    // the real tftpc and the real tftpd with a relay in between that duplicates, reorders and (completion optional) drops datagrams:
    // the receiving side ends with a byte-identical file or with none
    super::c04w::run_relay_random(ctx, false);
}

pub fn replay(ctx: &Ctx, part: &str, case: &Value) -> bool {
    if part.starts_with("wire-relay-") {
        return super::c04w::replay(ctx, part, case);
    }
    if part.starts_with("wire-") {
        return super::c0xw::replay(ctx, part, case);
    }
    sim::init();
    let dirs = DirPool::new(ctx, "c01");
    replay_one(ctx, part, case, |c: &Scenario, o| dirs.with(|d| judge(d, c, o)))
}

#[allow(dead_code)]
fn unused(_: Sev) {}
