//! C02 Upload fidelity (sim).

use super::simcommon::*;
use crate::common::*;
use crate::sim::{self, After, Role, Scenario};
use crate::simgen;
use proptest::prelude::*;
use serde_json::Value;
use std::path::Path;

pub fn strategy() -> BoxedStrategy<Scenario> {
    (
        simgen::geometry(64),
        any::<u64>(),
        prop_oneof![
            (simgen::fates(40, 8), Just(vec![]), Just(After::Honest)),
            (Just(vec![]), proptest::collection::vec(simgen::receiver_sev(), 0..30), simgen::after()),
            (simgen::fates(30, 4), proptest::collection::vec(simgen::receiver_sev(), 0..20), simgen::after()),
        ],
        any::<bool>(),
    )
        .prop_map(|(geo, seed, (fates, script, after), clean)| {
            let mut sc = simgen::scenario(Role::Receiver, geo, seed, false, fates, script, after, (true, true, clean));
            sc.pre_existing = seed % 4 == 0;
            // one case in 16 runs with a file-size limit somewhere inside the upload
            if seed % 16 == 5 && sc.file_len > 0 {
                sc.fsize_limit = Some((seed >> 8) % (sc.file_len as u64 + 1));
                sc.pre_existing = false;
            }
            sc
        })
        .boxed()
}

/// uploads whose window holds more than 1024 blocks (one flush writes thousands of pieces)
pub fn big_window_strategy() -> BoxedStrategy<Scenario> {
    (prop::sample::select(vec![(8usize, 1025u16), (8, 1100), (8, 2000), (8, 4096), (8, 65535), (65464, 20), (1428, 800), (10000, 120)]), 1030usize..2400, 0usize..8, any::<u64>(), any::<bool>())
        .prop_map(|((blk, ws), blocks, rem, seed, clean)| {
            // small blocks: more than 1024 pieces per flush; big blocks: more than 1 MiB per flush
            let blocks = if blk > 8 { ws as usize * 2 + 5 } else { blocks };
            let mut sc = Scenario::lossless(Role::Receiver, blk, ws, blocks * blk + rem, seed);
            sc.clean = clean;
            sc
        })
        .boxed()
}

const CLASSES: &[&str] = &["worker-receives", "completed", "timeout", "fault-hit", "duplicate-data-delivered", "out-of-order-data-delivered", "stray-or-undecodable-delivered", "peer-error", "exact-multiple", "single-block", "empty-file", "write-limit"];

pub fn judge(dir: &Path, sc: &Scenario, obs: &mut Obs) -> Judge {
    match sc.fsize_limit {
        // a disk that stops accepting data: ACK(k) must still imply that blocks 1..k are stored
        Some(l) => in_limited_child(l, obs, CLASSES, |o| {
            o.class("write-limit");
            judge_plain(dir, sc, o)
        }),
        None => judge_plain(dir, sc, obs),
    }
}

fn judge_plain(dir: &Path, sc: &Scenario, obs: &mut Obs) -> Judge {
    let (_r, _findings, fa) = run_and_judge(dir, sc, obs, &["R1", "R2", "R5"])?;
    obs.class_if(sc.ws > 1024 && fa.accepted_blocks > 1024, "window-above-1024-blocks");
    obs.class_if(sc.ws as usize * sc.blk > (1 << 20), "window-above-1MiB");
    obs.nontrivial = fa.accepted_blocks >= 2 && (fa.data_dups_delivered + fa.data_gaps_delivered + fa.noise > 0 || sc.ws > 1024 || sc.ws as usize * sc.blk > (1 << 20));
    Ok(())
}

pub fn run(ctx: &Ctx) {
    sim::init();
    ctx.set_rule("the real Worker::receive_file under a simulated socket: blksize x windowsize x upload sizes around block/window boundaries; arrivals = the datagrams of a conformant model sender passed through a fault network (<=8 drop/dup/swap/late fates in either direction) and/or an adversarial script (duplicates of earlier blocks, blocks ahead of their turn, stray ACK/OACK/undecodable datagrams, delays, losses, ERROR) at every position. Oracle: an ACK never runs ahead of the blocks received in sequence (R1); at every ACK emission the file on disk is read back and must be the in-order concatenation and contain every acknowledged block (R2); after a completed upload the file equals blocks 1..n once each (R5). A wire part uploads to the real tftpd (both port modes, blksize 8..16384, windowsize 1..6) with duplicated and replayed blocks and reads the stored file at every ACK it receives (ACK(k) implies blocks 1..k are stored). A relay part runs the real tftpc against the real tftpd through a UDP relay that duplicates, reorders and drops datagrams: the server ends with a byte-identical file or with no completed one. Non-trivial = >=2 blocks accepted and >=1 duplicate/out-of-order/stray datagram delivered; distinct = distinct (scenario, trace shape).");
    ctx.assume("injected DATA always carries the true payload of its absolute block (what duplication/reordering of a conformant sender's datagrams can produce)");
    let dirs = DirPool::new(ctx, "c02");
    explore(ctx, "random", ctx.tier.pick(200_000, 4_000_000), strategy, |c: &Scenario, o| dirs.with(|d| judge(d, c, o)));
    explore_n(ctx, "big-window", ctx.tier.pick(64, 2_000), shards(), 16, big_window_strategy, |c: &Scenario, o| dirs.with(|d| judge(d, c, o)));
    super::c0xw::run_wire(ctx, true);
    // the real tftpc and the real tftpd with a relay in between that duplicates, reorders and (completion optional) drops datagrams:
    // the receiving side ends with a byte-identical file or with none
    super::c04w::run_relay_random(ctx, true);
}

pub fn replay(ctx: &Ctx, part: &str, case: &Value) -> bool {
    if part.starts_with("wire-relay-") {
        return super::c04w::replay(ctx, part, case);
    }
    if part.starts_with("wire-") {
        return super::c0xw::replay(ctx, part, case);
    }
    sim::init();
    let dirs = DirPool::new(ctx, "c02");
    replay_one(ctx, part, case, |c: &Scenario, o| dirs.with(|d| judge(d, c, o)))
}
