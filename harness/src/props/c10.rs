//! C10 Decoder totality.

use crate::common::*;
use crate::gen;
use crate::refcodec::{self, RDec, RPacket};
use crate::viol;
use proptest::prelude::*;
use serde::{Deserialize, Serialize};
use serde_json::Value;
use tftpd::Packet;

#[derive(Clone, Debug, Serialize, Deserialize)]
pub struct Raw {
    #[serde(with = "hexbytes")]
    pub bytes: Vec<u8>,
}

#[derive(Clone, Debug, Serialize, Deserialize)]
pub enum Mut {
    Truncate(u16),
    Delete(u16),
    Insert(u16, u8),
    Replace(u16, u8),
    DupRange(u16, u8),
    Append(#[serde(with = "hexbytes")] Vec<u8>),
    DropNul(u8),
    DupNul(u8),
    SwapFields(u8, u8),
}

#[derive(Clone, Debug, Serialize, Deserialize)]
pub struct Mutated {
    pub base: RPacket,
    pub muts: Vec<Mut>,
}

pub fn apply_muts(base: &[u8], muts: &[Mut]) -> Vec<u8> {
    let mut b = base.to_vec();
    for m in muts {
        let len = b.len();
        match m {
            Mut::Truncate(i) => {
                let k = pick_idx(*i, len + 1);
                b.truncate(k);
            }
            Mut::Delete(i) => {
                if len > 0 {
                    b.remove(pick_idx(*i, len));
                }
            }
            Mut::Insert(i, x) => {
                b.insert(pick_idx(*i, len + 1), *x);
            }
            Mut::Replace(i, x) => {
                if len > 0 {
                    b[pick_idx(*i, len)] = *x;
                }
            }
            Mut::DupRange(i, n) => {
                if len > 0 {
                    let s = pick_idx(*i, len);
                    let e = (s + *n as usize).min(len);
                    let seg = b[s..e].to_vec();
                    let at = e;
                    for (k, x) in seg.into_iter().enumerate() {
                        b.insert(at + k, x);
                    }
                }
            }
            Mut::Append(x) => b.extend_from_slice(x),
            Mut::DropNul(k) => {
                let nuls: Vec<usize> = b.iter().enumerate().skip(2).filter(|(_, x)| **x == 0).map(|(i, _)| i).collect();
                if !nuls.is_empty() {
                    b.remove(nuls[*k as usize % nuls.len()]);
                }
            }
            Mut::DupNul(k) => {
                let nuls: Vec<usize> = b.iter().enumerate().skip(2).filter(|(_, x)| **x == 0).map(|(i, _)| i).collect();
                if !nuls.is_empty() {
                    b.insert(nuls[*k as usize % nuls.len()], 0);
                }
            }
            Mut::SwapFields(x, y) => {
                if len > 2 {
                    let body = b[2..].to_vec();
                    let mut fields: Vec<Vec<u8>> = body.split(|c| *c == 0).map(|f| f.to_vec()).collect();
                    let n = fields.len();
                    if n >= 2 {
                        fields.swap(*x as usize % n, *y as usize % n);
                        let mut nb = b[..2].to_vec();
                        nb.extend_from_slice(&fields.join(&0u8));
                        b = nb;
                    }
                }
            }
        }
    }
    b
}

const INTERESTING: [u8; 14] = [0, 1, 2, 3, 4, 5, 6, 7, 8, 0x80, 0xff, b'0', b'+', b'-'];

fn mut_strategy() -> BoxedStrategy<Mut> {
    let byte = prop_oneof![prop::sample::select(INTERESTING.to_vec()), any::<u8>()];
    prop_oneof![
        any::<u16>().prop_map(Mut::Truncate),
        any::<u16>().prop_map(Mut::Delete),
        (any::<u16>(), byte.clone()).prop_map(|(i, b)| Mut::Insert(i, b)),
        (any::<u16>(), byte).prop_map(|(i, b)| Mut::Replace(i, b)),
        (any::<u16>(), 1u8..40).prop_map(|(i, n)| Mut::DupRange(i, n)),
        proptest::collection::vec(any::<u8>(), 0..8).prop_map(Mut::Append),
        any::<u8>().prop_map(Mut::DropNul),
        any::<u8>().prop_map(Mut::DupNul),
        (any::<u8>(), any::<u8>()).prop_map(|(a, b)| Mut::SwapFields(a, b)),
    ]
    .boxed()
}

pub fn mutated_strategy() -> BoxedStrategy<Mutated> {
    (gen::rpacket(), proptest::collection::vec(mut_strategy(), 0..5))
        .prop_map(|(base, muts)| Mutated { base, muts })
        .boxed()
}

pub fn raw_strategy() -> BoxedStrategy<Raw> {
    prop_oneof![
        8 => proptest::collection::vec(any::<u8>(), 0..12),
        6 => (0u8..8, proptest::collection::vec(any::<u8>(), 0..40)).prop_map(|(op, mut t)| {
            let mut v = vec![0, op];
            v.append(&mut t);
            v
        }),
        3 => (0u8..8, proptest::collection::vec(prop::sample::select(vec![0u8, b'0', b'1', b'a', b'b', 0x80]), 0..24)).prop_map(|(op, mut t)| {
            let mut v = vec![0, op];
            v.append(&mut t);
            v
        }),
        1 => (1u8..7, any::<u8>(), 511usize..518).prop_map(|(op, fill, n)| {
            let mut v = vec![0, op];
            v.extend(std::iter::repeat(fill).take(n));
            v
        }),
        1 => (1u8..7, prop::sample::select(vec![0u8, b'7', 0xff]), prop::sample::select(vec![1400usize, 8192, 65464, 65507, 65536])).prop_map(|(op, fill, n)| {
            let mut v = vec![0, op];
            v.extend(std::iter::repeat(fill).take(n));
            v
        }),
    ]
    .prop_map(|bytes| Raw { bytes })
    .boxed()
}

/// The oracle. Used by the proptest parts, the enumerations and the fuzz target.
pub fn judge_bytes(bytes: &[u8], obs: &mut Obs) -> Judge {
    let valid_opcode = bytes.len() >= 2 && bytes[0] == 0 && (1..=6).contains(&bytes[1]);
    obs.nontrivial = valid_opcode;
    if valid_opcode {
        obs.class(match bytes[1] {
            1 => "rrq",
            2 => "wrq",
            3 => "data",
            4 => "ack",
            5 => "error",
            _ => "oack",
        });
    }
    let got = match no_panic(|| Packet::deserialize(bytes)) {
        Ok(r) => r,
        Err(msg) => viol!("decode-panic", "Packet::deserialize panicked ({}) on {}", msg, hex(bytes)),
    };
    let reference = refcodec::decode(bytes);
    match (&reference, &got) {
        (RDec::Reject(rule), Ok(p)) => {
            viol!("accepted-malformed", "rule '{}' requires rejection, decoder returned {:?} for {}", rule, p, hex(bytes))
        }
        (RDec::Reject(_), Err(_)) => obs.class("rejected-by-rule"),
        (RDec::Ok(_), _) => obs.class("wellformed"),
        (RDec::Unspecified(_), _) => obs.class("unspecified-by-property"),
    }
    if let Ok(p) = &got {
        obs.class("accepted");
        let ser = match no_panic(|| p.serialize()) {
            Ok(Ok(s)) => s,
            Ok(Err(e)) => viol!("reencode-failed", "serialize of accepted packet failed: {} ({:?})", e, p),
            Err(msg) => viol!("reencode-panic", "serialize panicked: {} ({:?})", msg, p),
        };
        match no_panic(|| Packet::deserialize(&ser)) {
            Ok(Ok(q)) => {
                if &q != p {
                    viol!("unstable", "decode(encode(p)) = {:?} differs from p = {:?}; input {}", q, p, hex(bytes));
                }
            }
            Ok(Err(e)) => viol!("unstable", "re-encoded packet {:?} is rejected: {}; input {}", p, e, hex(bytes)),
            Err(msg) => viol!("decode-panic", "decode of re-encoding panicked: {} ({:?})", msg, p),
        }
    }
    Ok(())
}

const ALPHABET: [u8; 12] = [0x00, 0x01, 0x02, 0x03, 0x04, 0x05, 0x06, b'0', b'9', b'a', 0x80, 0xff];

fn alphabet_string(mut idx: u64) -> Vec<u8> {
    // idx enumerates strings by length then lexicographically
    let mut len = 0usize;
    let mut count = 1u64;
    while idx >= count {
        idx -= count;
        count *= ALPHABET.len() as u64;
        len += 1;
    }
    let mut v = vec![0u8; len];
    for i in (0..len).rev() {
        v[i] = ALPHABET[(idx % ALPHABET.len() as u64) as usize];
        idx /= ALPHABET.len() as u64;
    }
    v
}

const TOKENS: [&[u8]; 12] = [
    b"\0", b"blksize", b"TSize", b"timeout", b"windowsize", b"f", b"8", b"1a", b"+5", b"-1", b"\x80", b"99999999999999999999999",
];

fn token_string(mut idx: u64, max_tokens: usize) -> Vec<u8> {
    let ops = [1u8, 2, 6];
    let op = ops[(idx % 3) as usize];
    idx /= 3;
    let mut len = 0usize;
    let mut count = 1u64;
    while idx >= count && len < max_tokens {
        idx -= count;
        count *= TOKENS.len() as u64;
        len += 1;
    }
    let mut toks = vec![0usize; len];
    for i in (0..len).rev() {
        toks[i] = (idx % TOKENS.len() as u64) as usize;
        idx /= TOKENS.len() as u64;
    }
    let mut v = vec![0, op];
    for t in toks {
        v.extend_from_slice(TOKENS[t]);
    }
    v
}

const TAILS: [&[u8]; 20] = [
    b"", b"\0", b"\0\0", b"\0\x01", b"\0\x08", b"\xff\xff", b"a\0", b"a\0b\0", b"a\0octet\0", b"a\0octet\0blksize\0", b"a\0octet\0blksize\08\0",
    b"a\0octet\0blksize\0x\0", b"\0\0\0", b"\0\x01\0", b"\0\x07msg", b"\0\x07msg\0", b"blksize\08\0", b"blksize\0", b"\x80\0\x80\0", b"a",
];

pub fn run(ctx: &Ctx) {
    ctx.set_rule("inputs: (1) every byte string up to length L over a 12-symbol alphabet of structurally relevant bytes, (2) all 65536 two-byte prefixes x 20 tails, (3) opcode x every sequence of <=K tokens from 12 option-grammar tokens, (4) valid packets from the C11 grammar with 0-4 structure-aware mutations, (5) raw random bytes incl. 64 KiB datagrams. Non-trivial = input starts with a valid opcode 1..6 (reaches a per-opcode parser); distinct = distinct byte strings (enumerations are distinct by construction).");
    ctx.assume("ERROR packets whose message lacks the NUL terminator are exempt from the reject rule: the pinned baseline test packet::tests::parses_error_without_message requires acceptance");
    ctx.assume("non-UTF-8 strings, non-ASCII option names, values with explicit '+' or beyond 2^64-1 are unspecified by the property: only no-panic and re-encode stability are demanded there");
    let l = ctx.tier.pick(6usize, 7usize);
    let mut n = 0u64;
    let mut c = 1u64;
    for _ in 0..=l {
        n += c;
        c *= ALPHABET.len() as u64;
    }
    ctx.extra("exhaustive_alphabet_len", serde_json::json!(l));
    enumerate_idx(ctx, "exh-alphabet", n, true, |i| Raw { bytes: alphabet_string(i) }, |c, o| judge_bytes(&c.bytes, o));
    enumerate_idx(
        ctx,
        "exh-prefix",
        65536 * TAILS.len() as u64,
        true,
        |i| {
            let p = (i / TAILS.len() as u64) as u16;
            let mut v = vec![(p >> 8) as u8, (p & 0xff) as u8];
            v.extend_from_slice(TAILS[(i % TAILS.len() as u64) as usize]);
            Raw { bytes: v }
        },
        |c, o| judge_bytes(&c.bytes, o),
    );
    let k = ctx.tier.pick(5usize, 6usize);
    let mut nt = 0u64;
    let mut c = 1u64;
    for _ in 0..=k {
        nt += c;
        c *= TOKENS.len() as u64;
    }
    enumerate_idx(ctx, "exh-tokens", nt * 3, true, |i| Raw { bytes: token_string(i, k) }, |c, o| judge_bytes(&c.bytes, o));
    explore(ctx, "mutated", ctx.tier.pick(600_000, 10_000_000), mutated_strategy, |c: &Mutated, o| {
        let bytes = apply_muts(&refcodec::encode(&c.base), &c.muts);
        o.class_if(!c.muts.is_empty(), "mutated");
        judge_bytes(&bytes, o)
    });
    explore(ctx, "random", ctx.tier.pick(300_000, 5_000_000), raw_strategy, |c: &Raw, o| judge_bytes(&c.bytes, o));
}

pub fn replay(ctx: &Ctx, part: &str, case: &Value) -> bool {
    match part {
        "mutated" => replay_one(ctx, part, case, |c: &Mutated, o| {
            let bytes = apply_muts(&refcodec::encode(&c.base), &c.muts);
            judge_bytes(&bytes, o)
        }),
        _ => replay_one(ctx, part, case, |c: &Raw, o| judge_bytes(&c.bytes, o)),
    }
}
