//! C05 Listener availability (wire).

use crate::common::*;
use crate::props::c10;
use crate::refcodec::{self, RDec, RPacket};
use crate::viol;
use crate::wire::{self, Client, Server, StartError};
use proptest::prelude::*;
use serde::{Deserialize, Serialize};
use serde_json::Value;
use std::path::Path;
use std::time::Duration;

#[derive(Clone, Debug, Serialize, Deserialize)]
pub enum DKind {
    Raw(#[serde(with = "hexbytes")] Vec<u8>),
    Req { write: bool, name: String, mode: String, opts: Vec<(String, String)> },
    Mutated(c10::Mutated),
    Ack(u16),
    Data(u16, u16),
    Error(u16),
    Oack(Vec<(String, String)>),
    /// opcode followed by n filler bytes
    Big(u16, u8, u16),
}

#[derive(Clone, Debug, Serialize, Deserialize)]
pub struct Dgram {
    pub src: u8,
    pub kind: DKind,
}

#[derive(Clone, Debug, Serialize, Deserialize)]
pub struct Case {
    pub single: bool,
    pub read_only: bool,
    pub dgrams: Vec<Dgram>,
}

pub fn bytes_of(k: &DKind) -> Vec<u8> {
    match k {
        DKind::Raw(b) => b.clone(),
        DKind::Req { write, name, mode, opts } => {
            let o: Vec<(Vec<u8>, Vec<u8>)> = opts.iter().map(|(n, v)| (n.as_bytes().to_vec(), v.as_bytes().to_vec())).collect();
            refcodec::encode_request_raw(*write, name.as_bytes(), mode.as_bytes(), &o)
        }
        DKind::Mutated(m) => c10::apply_muts(&refcodec::encode(&m.base), &m.muts),
        DKind::Ack(n) => refcodec::ack(*n),
        DKind::Data(n, len) => refcodec::data(*n, &vec![0x5a; *len as usize]),
        DKind::Error(c) => refcodec::error(*c, "go away"),
        DKind::Oack(opts) => {
            let mut v = vec![0, 6];
            for (n, val) in opts {
                v.extend_from_slice(n.as_bytes());
                v.push(0);
                v.extend_from_slice(val.as_bytes());
                v.push(0);
            }
            v
        }
        DKind::Big(op, fill, n) => {
            let mut v = vec![(*op >> 8) as u8, (*op & 0xff) as u8];
            v.extend(std::iter::repeat(*fill).take(*n as usize));
            v
        }
    }
}

pub const PROBE_LEN: usize = 700;

pub fn opt_name() -> BoxedStrategy<String> {
    prop_oneof![
        8 => prop::sample::select(vec!["blksize", "timeout", "tsize", "windowsize"]).prop_map(|s| s.to_string()),
        4 => prop::sample::select(vec!["BLKSIZE", "Timeout", "tSize", "WindowSize", "BlkSize", "WINDOWSIZE"]).prop_map(|s| s.to_string()),
        1 => prop::sample::select(vec!["multicast", "blksize2", "", "x", "window size"]).prop_map(|s| s.to_string()),
    ]
    .boxed()
}

pub fn opt_value() -> BoxedStrategy<String> {
    prop_oneof![
        10 => prop::sample::select(vec![
            "0", "1", "7", "8", "9", "512", "1428", "65463", "65464", "65465", "65535", "65536", "2147483648", "4294967296", "1099511627776", "9223372036854775808",
            "18446744073709551615", "18446744073709551616", "-1", "+5", "1e3", "", "0x10", " 8", "8 ", "255", "256"
        ])
        .prop_map(|s| s.to_string()),
        2 => (0u64..70000).prop_map(|v| v.to_string()),
        1 => any::<u64>().prop_map(|v| v.to_string()),
        1 => Just("9".repeat(400)),
    ]
    .boxed()
}

fn req() -> BoxedStrategy<DKind> {
    (
        any::<bool>(),
        prop_oneof![6 => Just("probe.bin".to_string()), 2 => Just("missing.bin".to_string()), 2 => Just("up.bin".to_string()), 1 => Just("../probe.bin".to_string()), 1 => Just("a".repeat(300)), 1 => Just(String::new())],
        prop_oneof![5 => Just("octet".to_string()), 1 => Just("netascii".to_string()), 1 => Just("".to_string()), 1 => Just("OCTET".to_string())],
        proptest::collection::vec((opt_name(), opt_value()), 0..5),
    )
        .prop_map(|(write, name, mode, opts)| DKind::Req { write, name, mode, opts })
        .boxed()
}

fn dkind() -> BoxedStrategy<DKind> {
    prop_oneof![
        10 => req(),
        3 => c10::mutated_strategy().prop_map(DKind::Mutated),
        3 => c10::raw_strategy().prop_map(|r| DKind::Raw(r.bytes)),
        1 => any::<u16>().prop_map(DKind::Ack),
        1 => (any::<u16>(), prop::sample::select(vec![0u16, 1, 511, 512, 513, 1400])).prop_map(|(n, l)| DKind::Data(n, l)),
        1 => (0u16..8).prop_map(DKind::Error),
        1 => proptest::collection::vec((opt_name(), opt_value()), 0..3).prop_map(DKind::Oack),
        1 => (prop::sample::select(vec![0u16, 1, 2, 3, 4, 5, 6, 7, 8, 0xffff]), any::<u8>(), prop::sample::select(vec![0u16, 1, 2, 3, 4, 509, 510, 511, 512, 513, 514, 515, 8192, 65464, 65505])).prop_map(|(o, f, n)| DKind::Big(o, f, n)),
    ]
    .boxed()
}

pub fn strategy() -> BoxedStrategy<Case> {
    (any::<bool>(), any::<bool>(), proptest::collection::vec((0u8..4, dkind()).prop_map(|(src, kind)| Dgram { src, kind }), 1..30))
        .prop_map(|(single, read_only, dgrams)| Case { single, read_only, dgrams })
        .boxed()
}

pub struct Sandbox {
    pub root: std::path::PathBuf,
    pub send: std::path::PathBuf,
    pub recv: std::path::PathBuf,
    pub probe: Vec<u8>,
}

pub fn sandbox(dir: &Path) -> Sandbox {
    let root = dir.join("c05");
    let _ = std::fs::remove_dir_all(&root);
    let send = root.join("send");
    let recv = root.join("recv");
    std::fs::create_dir_all(&send).unwrap();
    std::fs::create_dir_all(&recv).unwrap();
    let probe = content(0xC05, PROBE_LEN);
    std::fs::write(send.join("probe.bin"), &probe).unwrap();
    Sandbox { root, send, recv, probe }
}

/// canonical RRQ from a fresh socket; must be served with the right DATA 1 (and DATA 2)
pub fn probe_ok(srv: &mut Server, probe: &[u8]) -> Result<(), String> {
    let c = Client::new();
    probe_with(srv, probe, &c)
}

/// the canonical RRQ from a given endpoint (possibly one that has talked to the server before)
pub fn probe_with(srv: &mut Server, probe: &[u8], c: &Client) -> Result<(), String> {
    let rrq = refcodec::encode(&RPacket::Rrq {
        filename: "probe.bin".into(),
        mode: "octet".into(),
        options: vec![],
    });
    let mut last = String::from("no reply at all");
    // a real client retransmits its request; the listener may still be draining the generated datagrams
    for _attempt in 0..5 {
        c.send(&rrq, srv.addr);
        let deadline = std::time::Instant::now() + Duration::from_millis(1200);
        while std::time::Instant::now() < deadline {
            if let Some(st) = srv.exit_status() {
                return Err(format!("process exited: {}", st));
            }
            let Some((b, from)) = c.recv(Duration::from_millis(100)) else { continue };
            match refcodec::decode(&b) {
                RDec::Ok(RPacket::Data { block: 1, data }) => {
                    if data != probe[..512] {
                        return Err(format!("DATA 1 carries wrong content ({} bytes)", data.len()));
                    }
                    // finish politely: ACK 1, expect DATA 2, ACK 2
                    c.send(&refcodec::ack(1), from);
                    let t2 = std::time::Instant::now() + Duration::from_millis(3000);
                    while std::time::Instant::now() < t2 {
                        if let Some((b2, f2)) = c.recv(Duration::from_millis(200)) {
                            if let RDec::Ok(RPacket::Data { block: 2, data: d2 }) = refcodec::decode(&b2) {
                                if d2 != probe[512..] {
                                    return Err("DATA 2 carries wrong content".into());
                                }
                                c.send(&refcodec::ack(2), f2);
                                return Ok(());
                            }
                        }
                    }
                    return Err("DATA 1 was correct but DATA 2 never came after ACK 1".into());
                }
                RDec::Ok(RPacket::Data { .. }) | RDec::Ok(RPacket::Oack(_)) | RDec::Ok(RPacket::Ack(_)) | RDec::Ok(RPacket::Error { .. }) => {
                    // leftovers of transfers this endpoint started during the sequence
                    last = "only datagrams of older transfers arrived".to_string();
                }
                other => last = format!("unexpected reply {:?}", other),
            }
        }
    }
    Err(last)
}

fn run_case(dir: &Path, c: &Case) -> Result<(), (String, String)> {
    let sb = sandbox(dir);
    let mut args = vec![wire::s("-sd"), sb.send.to_string_lossy().to_string(), wire::s("-rd"), sb.recv.to_string_lossy().to_string()];
    if c.single {
        args.push(wire::s("-s"));
    }
    if c.read_only {
        args.push(wire::s("-r"));
    }
    let mut srv = match Server::start(&args, &sb.root) {
        Ok(s) => s,
        Err(StartError::Exited(code, e)) => return Err(("harness".into(), format!("tftpd exited at start-up with {}: {}", code, e))),
        Err(StartError::Harness(e)) => return Err(("harness".into(), e)),
    };
    let clients: Vec<Client> = (0..4).map(|_| Client::new()).collect();
    for d in &c.dgrams {
        let b = bytes_of(&d.kind);
        let b = if b.len() > 65507 { b[..65507].to_vec() } else { b };
        clients[d.src as usize % 4].send(&b, srv.addr);
    }
    let mut res = probe_ok(&mut srv, &sb.probe);
    if res.is_ok() {
        // and from an endpoint that took part in the sequence: a client that was served (or refused) before must be served again
        let _ = clients[0].drain(Duration::from_millis(2));
        res = probe_with(&mut srv, &sb.probe, &clients[0]).map_err(|e| format!("(probe from source 0 of the sequence) {}", e));
    }
    let status = srv.exit_status();
    let tail = srv.stderr_tail();
    drop(srv);
    let _ = std::fs::remove_dir_all(&sb.root);
    if let Some(st) = status {
        return Err(("server-terminated".into(), format!("tftpd is no longer running ({}) after the datagram sequence; stderr: {}", st, tail)));
    }
    if let Err(e) = res {
        return Err(("server-wedged".into(), format!("the canonical RRQ from a fresh socket was not served correctly within 5 attempts / 6 s: {}; stderr: {}", e, tail)));
    }
    Ok(())
}

pub fn judge(dir: &Path, c: &Case, obs: &mut Obs) -> Judge {
    obs.class(if c.single { "single-port" } else { "multi-port" });
    obs.class(if c.read_only { "read-only" } else { "writable" });
    let mut has_opt_req = false;
    let mut has_undecodable = false;
    for d in &c.dgrams {
        let b = bytes_of(&d.kind);
        match refcodec::decode(&b) {
            RDec::Ok(RPacket::Rrq { options, .. }) | RDec::Ok(RPacket::Wrq { options, .. }) => {
                if !options.is_empty() {
                    has_opt_req = true;
                }
            }
            RDec::Reject(_) => has_undecodable = true,
            RDec::Unspecified(_) => has_undecodable = true,
            _ => {}
        }
        if b.len() > 1400 {
            obs.class("oversized-datagram");
        }
    }
    obs.class_if(has_opt_req, "request-with-recognised-option");
    obs.class_if(has_undecodable, "undecodable-datagram");
    obs.nontrivial = has_opt_req || has_undecodable;
    match run_case(dir, c) {
        Ok(()) => Ok(()),
        Err((sig, detail)) if sig == "harness" => {
            obs.inconclusive = Some(detail);
            Ok(())
        }
        Err((sig, detail)) => {
            // isolated re-run before reporting
            match run_case(dir, c) {
                Ok(()) => {
                    obs.inconclusive = Some(format!("failed once, passed on the isolated re-run: {}", detail));
                    Ok(())
                }
                Err((sig2, d2)) if sig2 == "harness" => {
                    obs.inconclusive = Some(d2);
                    Ok(())
                }
                Err(_) => {
                    viol!(sig, "{} | mode single={} read_only={} | {} datagrams", detail, c.single, c.read_only, c.dgrams.len())
                }
            }
        }
    }
}

/// deterministic boundary sweep: every recognised option x every boundary value x RRQ/WRQ x mode
fn sweep() -> Vec<Case> {
    let names = ["blksize", "timeout", "tsize", "windowsize", "BLKSIZE", "WindowSize"];
    let values = [
        "0", "1", "7", "8", "65464", "65465", "65536", "2147483648", "4294967296", "1099511627776", "9223372036854775808", "18446744073709551615", "18446744073709551616", "-1", "+5", "1e3", "",
    ];
    let mut out = vec![];
    for single in [false, true] {
        for read_only in [false, true] {
            for write in [false, true] {
                for n in names {
                    // one server per (mode, option): all boundary values in a row, then the probe
                    let dgrams = values
                        .iter()
                        .enumerate()
                        .map(|(i, v)| Dgram {
                            src: (i % 4) as u8,
                            kind: DKind::Req {
                                write,
                                name: if write { format!("up{}.bin", i) } else { "probe.bin".into() },
                                mode: "octet".into(),
                                opts: vec![(n.to_string(), v.to_string())],
                            },
                        })
                        .collect::<Vec<_>>();
                    out.push(Case { single, read_only, dgrams: dgrams.clone() });
                    // and each value alone (a crash is then attributed to exactly one datagram)
                    for d in dgrams {
                        out.push(Case { single, read_only, dgrams: vec![d] });
                    }
                }
            }
        }
    }
    out
}

/// one long-lived server: hundreds of ordinary sequential transfers, then it must still serve (state that accumulates in the listener)
#[derive(Clone, Debug, Serialize, Deserialize)]
pub struct LongCase {
    pub single: bool,
    pub read_only: bool,
    pub transfers: u32,
    /// every k-th transfer is an upload (0 = downloads only)
    pub upload_every: u32,
    pub reuse_socket: bool,
}

pub fn judge_long(dir: &Path, c: &LongCase, obs: &mut Obs) -> Judge {
    obs.class(if c.single { "long-lived-single-port" } else { "long-lived-multi-port" });
    obs.nontrivial = c.transfers >= 100;
    let sb = sandbox(dir);
    let mut args = vec![wire::s("-sd"), sb.send.to_string_lossy().to_string(), wire::s("-rd"), sb.recv.to_string_lossy().to_string()];
    if c.single {
        args.push(wire::s("-s"));
    }
    if c.read_only {
        args.push(wire::s("-r"));
    }
    let mut srv = match Server::start(&args, &sb.root) {
        Ok(s) => s,
        Err(_) => {
            obs.inconclusive = Some("server did not start".into());
            return Ok(());
        }
    };
    let shared = Client::new();
    for i in 0..c.transfers {
        let fresh;
        let cl = if c.reuse_socket {
            &shared
        } else {
            fresh = Client::new();
            &fresh
        };
        let upload = c.upload_every > 0 && i % c.upload_every == c.upload_every - 1 && !c.read_only;
        let r = if upload {
            let name = format!("u{}.bin", i);
            match crate::wclient::start(cl, srv.addr, true, &name, &[], Duration::from_secs(3)) {
                crate::wclient::Start::Accepted { neg, .. } => crate::wclient::upload(cl, &neg, b"payload of a small upload", None, &mut vec![]).map(|_| ()),
                other => Err(format!("upload #{} not accepted: {:?}", i, other)),
            }
        } else {
            probe_with(&mut srv, &sb.probe, cl)
        };
        if let Err(e) = r {
            let tail = srv.stderr_tail();
            viol!("server-stops-serving", "after {} ordinary sequential transfers the next valid request was not served: {}; stderr: {}", i, e, tail);
        }
    }
    if let Some(st) = srv.exit_status() {
        viol!("server-terminated", "tftpd exited ({}) during {} sequential transfers", st, c.transfers);
    }
    drop(srv);
    let _ = std::fs::remove_dir_all(&sb.root);
    Ok(())
}

pub fn run(ctx: &Ctx) {
    ctx.set_rule("per case one fresh real tftpd process in {multi-port, single-port} x {read-only, writable} receives a generated sequence of 1-29 datagrams from up to 4 source sockets: requests with recognised option names in any case and boundary values (0,1,7,8,65464,65465,2^16,2^31,2^32,2^40,2^63,2^64-1,2^64,-1,+5,1e3,empty,400 digits), structure-aware mutations of valid packets, raw bytes, every opcode 0..8/0xFFFF with tails of 0..65505 bytes, non-request packets; plus a deterministic sweep option x boundary value x RRQ/WRQ x mode. Oracle: afterwards a canonical RRQ from a fresh socket and then from one of the sequence's own source sockets (retransmitted up to 5 times like a real client) is served with the correct DATA 1 and DATA 2 and the process is still running; failures are re-run once in isolation before they are reported. A third part keeps one server alive through 700 (thorough 5000) ordinary sequential transfers (downloads and uploads, fresh or reused client socket) - every one must be served. Non-trivial = the sequence contains a request with a recognised option or an undecodable datagram; distinct = distinct sequences.");
    ctx.assume("resource exhaustion by volume (thousands of simultaneous requests) is outside the generated domain: at most 29 datagrams per fresh server");
    ctx.assume("datagrams the kernel drops because the listener's socket buffer is full simply do not belong to the delivered sequence");
    let dirs = DirPool::new(ctx, "c05");
    let cases = sweep();
    enumerate(ctx, "boundary-sweep", &cases, false, |c, o| dirs.with(|d| judge(d, c, o)));
    let n = ctx.tier.pick(700u32, 5000u32);
    let mut longs = vec![];
    for single in [false, true] {
        for reuse_socket in [false, true] {
            longs.push(LongCase { single, read_only: false, transfers: n, upload_every: 3, reuse_socket });
        }
        longs.push(LongCase { single, read_only: true, transfers: n, upload_every: 0, reuse_socket: false });
    }
    enumerate(ctx, "long-lived-server", &longs, false, |c, o| dirs.with(|d| judge_long(d, c, o)));
    explore_n(ctx, "random", ctx.tier.pick(30_000, 600_000), shards(), 24, strategy, |c: &Case, o| dirs.with(|d| judge(d, c, o)));
}

pub fn replay(ctx: &Ctx, part: &str, case: &Value) -> bool {
    let dirs = DirPool::new(ctx, "c05");
    if part == "long-lived-server" {
        return replay_one(ctx, part, case, |c: &LongCase, o| dirs.with(|d| judge_long(d, c, o)));
    }
    replay_one(ctx, part, case, |c: &Case, o| dirs.with(|d| judge(d, c, o)))
}
