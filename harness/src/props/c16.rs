//! C16 Duplicate-packets mode (sim part + own sender against own receiver; wire part in wire-based section).

use super::simcommon::*;
use crate::common::*;
use crate::refcodec::{self, RDec, RPacket};
use crate::sim::{self, After, Role, Scenario};
use crate::viol;
use proptest::prelude::*;
use serde::{Deserialize, Serialize};
use serde_json::Value;
use std::error::Error;
use std::net::SocketAddr;
use std::path::Path;
use std::sync::mpsc::{channel, Receiver, Sender};
use std::sync::{Arc, Mutex};
use std::time::Duration;
use tftpd::{Packet, Socket, Worker};

pub fn judge_sim(dir: &Path, sc: &Scenario, obs: &mut Obs) -> Judge {
    let (r, _f, fa) = run_and_judge(dir, sc, obs, &["S9", "S1", "S2", "R1", "R2", "R5", "S6", "R4"])?;
    obs.class_if(!r.hits.is_empty(), "burst-loss-in-duplicate-mode");
    obs.class_if(sc.peer_leaves, "uploader-leaves-after-final-ack");
    obs.nontrivial = sc.repeat >= 2 && sc.nblocks() >= 1;
    obs.class(match sc.repeat {
        1 => "N=0",
        2 => "N=1",
        3 => "N=2",
        4 => "N=3",
        255 => "N=254",
        _ => "N=other",
    });
    match sc.role {
        Role::Sender => {
            if !(fa.completed && r.peer_done && r.peer_data == r.file) {
                viol!("dup-mode-download", "with every datagram emitted {} times the download did not complete byte-identically (worker completed={}, client done={}, {} of {} bytes) | {}", sc.repeat, fa.completed, r.peer_done, r.peer_data.len(), r.file.len(), describe(sc));
            }
        }
        Role::Receiver => {
            if !(fa.completed && r.file_after.as_deref() == Some(&r.file[..])) {
                viol!("dup-mode-upload", "with every ACK emitted {} times the upload did not complete byte-identically (completed={}, file {:?} of {} bytes) | {}", sc.repeat, fa.completed, r.file_after.as_ref().map(|f| f.len()), r.file.len(), describe(sc));
            }
        }
    }
    Ok(())
}

pub fn sim_strategy() -> BoxedStrategy<Scenario> {
    (
        prop_oneof![Just(Role::Sender), Just(Role::Receiver)],
        prop_oneof![30 => 0u8..=3, 1 => Just(254u8)],
        prop_oneof![4 => 1u16..=5, 1 => Just(16u16), 1 => Just(65535u16)],
        0usize..10,
        0usize..8,
        any::<u64>(),
        any::<bool>(),
        proptest::collection::vec(0usize..60, 0..3),
    )
        .prop_map(|(role, n, ws, blocks, rem, seed, hs, bursts)| {
            let blk = 8usize;
            let blocks = if n == 254 { blocks % 2 } else { blocks };
            let mut sc = Scenario::lossless(role, blk, ws, blocks * blk + rem, seed);
            sc.repeat = n + 1;
            sc.handshake = hs && role == Role::Sender;
            sc.after = After::Honest;
            // a burst loss swallows N+1 back-to-back datagrams (all copies of one emission, if aligned)
            if n >= 1 && n <= 3 && seed % 2 == 0 {
                let mut fates = vec![];
                for b in bursts {
                    let p = b * (n as usize + 1) / 1;
                    if fates.len() < p + n as usize + 1 {
                        fates.resize(p + n as usize + 1, crate::sim::Fate::Deliver);
                    }
                    for k in 0..=(n as usize) {
                        fates[p + k] = crate::sim::Fate::Drop;
                    }
                }
                sc.fates = fates;
            }
            // an uploader that leaves as soon as its final block is acknowledged (the other copies of that ACK hit a closed port)
            if role == Role::Receiver && seed % 3 == 1 {
                sc.peer_leaves = true;
            }
            sc
        })
        .boxed()
}

// ---- the repo's own sender against its own receiver over a loss-free in-memory link ----

struct PipeSocket {
    tx: Mutex<Sender<Vec<u8>>>,
    rx: Mutex<Receiver<Vec<u8>>>,
    log: Arc<Mutex<Vec<(bool, Vec<u8>)>>>, // (is_tx, bytes)
}

impl Socket for PipeSocket {
    fn send(&self, packet: &Packet) -> Result<(), Box<dyn Error>> {
        let b = packet.serialize()?;
        self.log.lock().unwrap().push((true, b.clone()));
        let _ = self.tx.lock().unwrap().send(b);
        Ok(())
    }
    fn send_to(&self, packet: &Packet, _to: &SocketAddr) -> Result<(), Box<dyn Error>> {
        self.send(packet)
    }
    fn recv_with_size(&self, size: usize) -> Result<Packet, Box<dyn Error>> {
        // real time here: generous, only reached when the other side has nothing to say
        match self.rx.lock().unwrap().recv_timeout(Duration::from_secs(3)) {
            Ok(mut b) => {
                b.truncate(size + 4);
                self.log.lock().unwrap().push((false, b.clone()));
                Ok(Packet::deserialize(&b)?)
            }
            Err(_) => Err("pipe timeout".into()),
        }
    }
    fn recv_from_with_size(&self, size: usize) -> Result<(Packet, SocketAddr), Box<dyn Error>> {
        Ok((self.recv_with_size(size)?, self.remote_addr()?))
    }
    fn remote_addr(&self) -> Result<SocketAddr, Box<dyn Error>> {
        Ok("127.0.0.1:9".parse().unwrap())
    }
    fn set_read_timeout(&mut self, _d: Duration) -> Result<(), Box<dyn Error>> {
        Ok(())
    }
    fn set_write_timeout(&mut self, _d: Duration) -> Result<(), Box<dyn Error>> {
        Ok(())
    }
}

#[derive(Clone, Debug, Serialize, Deserialize)]
pub struct SelfCase {
    pub n_sender: u8,
    pub n_receiver: u8,
    pub ws: u16,
    pub blk: usize,
    pub file_len: usize,
    pub seed: u64,
}

fn runs_ok(log: &[(bool, Vec<u8>)], repeat: u8, what: &str) -> Judge {
    // every logical emission = a run of exactly `repeat` identical datagrams, runs separated by receives or by a different datagram
    let mut i = 0;
    while i < log.len() {
        if !log[i].0 {
            i += 1;
            continue;
        }
        let mut j = i;
        while j < log.len() && log[j].0 && log[j].1 == log[i].1 {
            j += 1;
        }
        let n = j - i;
        if n != repeat as usize {
            viol!("self-S9", "{} emitted {} {} time(s) back to back, expected {}", what, hex(&log[i].1[..log[i].1.len().min(8)]), n, repeat);
        }
        i = j;
    }
    Ok(())
}

pub fn judge_self(dir: &Path, c: &SelfCase, obs: &mut Obs) -> Judge {
    let file = content(c.seed, c.file_len);
    let src = dir.join("self-src.bin");
    let dst = dir.join("self-dst.bin");
    std::fs::write(&src, &file).unwrap();
    let _ = std::fs::remove_file(&dst);
    let (a_tx, b_rx) = channel();
    let (b_tx, a_rx) = channel();
    let log_s = Arc::new(Mutex::new(vec![]));
    let log_r = Arc::new(Mutex::new(vec![]));
    let s_sock = Box::new(PipeSocket { tx: Mutex::new(a_tx), rx: Mutex::new(a_rx), log: log_s.clone() });
    let r_sock = Box::new(PipeSocket { tx: Mutex::new(b_tx), rx: Mutex::new(b_rx), log: log_r.clone() });
    let sender = Worker::new(s_sock, src.clone(), true, c.blk, sim::TIMEOUT, c.ws, c.n_sender + 1);
    let receiver = Worker::new(r_sock, dst.clone(), true, c.blk, sim::TIMEOUT, c.ws, c.n_receiver + 1);
    let hr = receiver.receive().expect("spawn receiver");
    let hs = sender.send(false).expect("spawn sender");
    let sj = hs.join();
    let rj = hr.join();
    let got = std::fs::read(&dst).ok();
    let _ = std::fs::remove_file(&src);
    let _ = std::fs::remove_file(&dst);
    obs.nontrivial = c.n_sender + c.n_receiver > 0;
    obs.class("own-sender-vs-own-receiver");
    obs.class_if(c.n_sender > 0, "sender-duplicates");
    obs.class_if(c.n_receiver > 0, "receiver-duplicates");
    if sj.is_err() || rj.is_err() {
        viol!("self-panic", "a worker thread panicked (sender {:?}, receiver {:?}) in {:?}", sj.is_err(), rj.is_err(), c);
    }
    if got.as_deref() != Some(&file[..]) {
        viol!("self-content", "own sender (N={}) to own receiver (N={}): stored file is {:?} bytes, expected {} byte-identical | {:?}", c.n_sender, c.n_receiver, got.as_ref().map(|g| g.len()), file.len(), c);
    }
    let ls = log_s.lock().unwrap().clone();
    let lr = log_r.lock().unwrap().clone();
    runs_ok(&ls, c.n_sender + 1, "the sender")?;
    runs_ok(&lr, c.n_receiver + 1, "the receiver")?;
    // the sender ended because its final block was acknowledged, not by timeout: last received datagram is an ACK of the final block
    let nblocks = (c.file_len / c.blk) as u64 + 1;
    let last_rx = ls.iter().rev().find(|e| !e.0).map(|e| e.1.clone());
    match last_rx.map(|b| refcodec::decode(&b)) {
        Some(RDec::Ok(RPacket::Ack(k))) if k == sim::wire(nblocks) => {}
        other => viol!("self-termination", "the sender's last received datagram is {:?}, expected ACK {} | {:?}", other, sim::wire(nblocks), c),
    }
    Ok(())
}

pub fn self_strategy() -> BoxedStrategy<SelfCase> {
    (0u8..=3, 0u8..=3, prop_oneof![1u16..=4, Just(8u16)], prop::sample::select(vec![8usize, 16, 512]), 0usize..7, 0usize..8, any::<u64>())
        .prop_map(|(n_sender, n_receiver, ws, blk, blocks, rem, seed)| SelfCase {
            n_sender,
            n_receiver,
            ws,
            blk,
            file_len: blocks * blk + rem % blk,
            seed,
        })
        .boxed()
}

pub fn run(ctx: &Ctx) {
    sim::init();
    ctx.set_rule("sim: Worker with repeat = N+1 for N in {0,1,2,3,254 (<=2 blocks)} x both roles x windowsize {1..5,16,65535} x 0..9 blocks, lossless link, model peer that answers every copy it can; own-vs-own: the repo's sender worker connected to the repo's receiver worker through an in-memory loss-free link with N in 0..3 independently on either side. Oracle: inside every burst each distinct datagram appears exactly N+1 times consecutively (S9), content byte-identical, transfer completes and ends at the final acknowledgement. Non-trivial = N >= 1 on at least one side; distinct = distinct scenarios. The wire part checks the server-level mapping of --duplicate-packets (initial reply once - OACK, ACK 0 and every kind of refusal: ERROR 1 not found, ERROR 6 exists without --overwrite, ERROR 2 from a read-only server, with and without options - and DATA/ACK N+1 times), the start-up rejection of N >= 255, a two-window upload with a 300-block window at N=2 and N=60, and - in real time - that a stale ACK right after a window whose transmission takes longer than the timeout (600 blocks x 3 copies x 1 ms) triggers no retransmission.");
    ctx.assume("the 1 ms real sleep between copies is not judged; own-vs-own uses real 3 s receive timeouts that are never reached in a correct run");
    let dirs = DirPool::new(ctx, "c16");
    explore(ctx, "sim", ctx.tier.pick(4_000, 60_000), sim_strategy, |c: &Scenario, o| dirs.with(|d| judge_sim(d, c, o)));
    explore(ctx, "own-vs-own", ctx.tier.pick(600, 8_000), self_strategy, |c: &SelfCase, o| dirs.with(|d| judge_self(d, c, o)));
    super::c16w::run_wire(ctx);
}

pub fn replay(ctx: &Ctx, part: &str, case: &Value) -> bool {
    sim::init();
    let dirs = DirPool::new(ctx, "c16");
    match part {
        "own-vs-own" => replay_one(ctx, part, case, |c: &SelfCase, o| dirs.with(|d| judge_self(d, c, o))),
        "sim" => replay_one(ctx, part, case, |c: &Scenario, o| dirs.with(|d| judge_sim(d, c, o))),
        _ => super::c16w::replay(ctx, part, case),
    }
}
