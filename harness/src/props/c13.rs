//! C13 Failed uploads are cleaned up without harming completed ones.
//! sim part: every abort point x cause x {clean, keep}; wire part (c13w): duplicate/stale WRQ histories.

use super::simcommon::*;
use crate::common::*;
use crate::sim::{self, After, Ev, Role, Scenario, Sev};
use crate::viol;
use proptest::prelude::*;
use serde::{Deserialize, Serialize};
use serde_json::Value;
use std::path::Path;

#[derive(Clone, Debug, Serialize, Deserialize)]
pub struct Case {
    pub sc: Scenario,
    /// RLIMIT_FSIZE for the run (write error at this file offset); None = no write error
    pub fsize_limit: Option<u64>,
}

const OWNED: [&str; 2] = ["R6", "R5"];

fn judge_plain(dir: &Path, c: &Case, obs: &mut Obs) -> Judge {
    let (r, _f, fa) = run_and_judge(dir, &c.sc, obs, &OWNED)?;
    let failed = !fa.completed;
    obs.class_if(failed && c.sc.clean, "failed-clean");
    obs.class_if(failed && !c.sc.clean, "failed-keep");
    obs.class_if(failed && fa.accepted_blocks > 0, "failed-after-some-blocks");
    obs.class_if(c.fsize_limit.is_some(), "write-error");
    obs.class_if(c.sc.pre_existing, "overwrites-existing-file");
    obs.class_if(failed && fa.peer_error, "cause-peer-error");
    obs.class_if(failed && !fa.peer_error && c.fsize_limit.is_none(), "cause-silence");
    obs.nontrivial = failed;
    if let Some(limit) = c.fsize_limit {
        // the write error must have hit if the upload is longer than the limit
        if (r.file.len() as u64) > limit && fa.completed {
            viol!("write-error-ignored", "the upload of {} bytes completed although writes beyond offset {} fail | {}", r.file.len(), limit, describe(&c.sc));
        }
    }
    Ok(())
}

fn judge_limited(dir: &Path, c: &Case, obs: &mut Obs) -> Judge {
    in_limited_child(c.fsize_limit.unwrap(), obs, KNOWN_CLASSES, |o| judge_plain(dir, c, o))
}

const KNOWN_CLASSES: &[&str] = &[
    "failed-clean", "failed-keep", "overwrites-existing-file", "failed-after-some-blocks", "write-error", "cause-peer-error", "cause-silence", "worker-receives", "completed", "exact-multiple", "single-block", "empty-file", "timeout", "peer-error",
    "duplicate-data-delivered", "out-of-order-data-delivered", "stray-or-undecodable-delivered", "fault-hit",
];

pub fn judge(dir: &Path, c: &Case, obs: &mut Obs) -> Judge {
    if c.fsize_limit.is_some() {
        judge_limited(dir, c, obs)
    } else {
        judge_plain(dir, c, obs)
    }
}

fn mk(ws: u16, blk: usize, len: usize, clean: bool, script: Vec<Sev>, after: After) -> Scenario {
    let mut sc = Scenario::lossless(Role::Receiver, blk, ws, len, 5 + len as u64 * 3 + ws as u64);
    // every second configuration overwrites an existing file
    sc.pre_existing = (len + ws as usize + script.len()) % 2 == 1;
    sc.clean = clean;
    sc.script = script;
    sc.after = after;
    sc
}

fn exhaustive(dir: &Path, wmax: u16) -> Vec<Case> {
    let blk = 8usize;
    let mut out = vec![];
    for ws in 1..=wmax {
        let wl = ws as usize;
        let mut lens = vec![0usize, 5, blk, wl * blk, wl * blk + 3, 2 * wl * blk, 2 * wl * blk + blk + 1];
        lens.sort();
        lens.dedup();
        for len in lens {
            let base = mk(ws, blk, len, true, vec![], After::Honest);
            let r = sim::run(&base, dir);
            let positions = r.trace.iter().filter(|e| !matches!(e, Ev::Tx { .. })).count();
            for clean in [true, false] {
                for p in 0..=positions {
                    let prefix = vec![Sev::Pass; p];
                    out.push(Case { sc: mk(ws, blk, len, clean, prefix.clone(), After::Silent), fsize_limit: None });
                    for code in [0u16, 3] {
                        let mut s = prefix.clone();
                        s.push(Sev::Error(code));
                        out.push(Case { sc: mk(ws, blk, len, clean, s, After::Honest), fsize_limit: None });
                    }
                    // long and non-ASCII error texts (they end up in the worker's log line)
                    for n in [45u16, 63, 129, 600] {
                        let mut s = prefix.clone();
                        s.push(Sev::ErrorLong(2, n));
                        out.push(Case { sc: mk(ws, blk.max(16) * 64, len, clean, s, After::Honest), fsize_limit: None });
                    }
                }
                // write error at every offset class: inside the first block, at block edges, inside/at the edge of each window
                let mut limits: Vec<u64> = vec![0, 1, blk as u64 - 1, blk as u64, blk as u64 + 1];
                for k in 1..=(len / blk + 1) {
                    limits.push((k * blk) as u64);
                    limits.push((k * blk) as u64 + 3);
                }
                limits.sort();
                limits.dedup();
                for l in limits {
                    if (l as usize) < len {
                        out.push(Case { sc: mk(ws, blk, len, clean, vec![], After::Honest), fsize_limit: Some(l) });
                    }
                }
            }
        }
    }
    out
}

pub fn strategy() -> BoxedStrategy<Case> {
    (
        crate::simgen::geometry(30),
        any::<u64>(),
        any::<bool>(),
        proptest::collection::vec(crate::simgen::receiver_sev(), 0..25),
        prop_oneof![1 => Just(After::Honest), 2 => Just(After::Silent)],
        crate::simgen::fates(30, 4),
        prop_oneof![3 => Just(None), 1 => (0u64..400).prop_map(Some)],
    )
        .prop_map(|(geo, seed, clean, script, after, fates, limit)| {
            let mut sc = crate::simgen::scenario(Role::Receiver, geo, seed, false, fates, script, after, (true, true, clean));
            sc.pre_existing = seed % 3 == 0;
            Case { sc, fsize_limit: limit }
        })
        .boxed()
}

pub fn run(ctx: &Ctx) {
    sim::init();
    ctx.set_level("fault_enumeration");
    ctx.set_rule("sim part: the receiving worker, windowsize 1..W (quick 4, thorough 6), upload lengths around block and window edges; EVERY abort point: the peer falls silent or sends ERROR at every receive position of the lossless run, and a write error (EFBIG through RLIMIT_FSIZE in a forked child, SIGXFSZ ignored) at every block edge and inside blocks; each x {clean-on-error, keep-on-error}; random scripts/faults/limits beyond. Oracle: after a failed upload the file is absent (clean) or present and a prefix of the bytes sent (keep); a completed upload leaves exactly the bytes received. wire part: (a) uploads against the real tftpd with timeout/blksize/windowsize and with or without a tsize option, aborted after 0..4 acknowledged blocks by a peer ERROR or by silence, x {clean, keep} x port mode - the file must be gone resp. a prefix of the bytes sent that contains every acknowledged block; (b) histories with duplicate / retransmitted WRQs for one name, incl. a duplicate that arrives 0.5 s after the first was accepted without --overwrite, and - in a third of the histories - a further WRQ for the name after the upload has completed that carries an unhonourable option value and is therefore never accepted: the completed file must stay as it is. Non-trivial = the upload failed; distinct = distinct (scenario, limit, trace shape).");
    ctx.assume("write errors are produced by RLIMIT_FSIZE (EFBIG at a chosen offset); ENOSPC/EIO are assumed to take the same error path (Window::empty -> Err)");
    let dirs = DirPool::new(ctx, "c13");
    let wmax = ctx.tier.pick(4, 6);
    let cases = dirs.with(|d| exhaustive(d, wmax));
    enumerate(ctx, "exh-abort-points", &cases, true, |c, o| dirs.with(|d| judge(d, c, o)));
    explore(ctx, "random", ctx.tier.pick(30_000, 600_000), strategy, |c: &Case, o| dirs.with(|d| judge(d, c, o)));
    super::c13w::run_wire(ctx);
}

pub fn replay(ctx: &Ctx, part: &str, case: &Value) -> bool {
    sim::init();
    let dirs = DirPool::new(ctx, "c13");
    match part {
        "exh-abort-points" | "random" => replay_one(ctx, part, case, |c: &Case, o| dirs.with(|d| judge(d, c, o))),
        _ => super::c13w::replay(ctx, part, case),
    }
}
