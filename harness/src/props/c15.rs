//! C15 Block-number wrap-around (sim part; the wire part lives in c14/wire).

use super::simcommon::*;
use crate::common::*;
use crate::sim::{self, After, Fate, Role, Scenario};
use crate::viol;
use proptest::prelude::*;
use serde_json::Value;
use std::path::Path;

const OWNED: [&str; 9] = ["S1", "S2", "S3", "S4", "R1", "R2", "R5", "S8", "P0"];

pub fn judge(dir: &Path, sc: &Scenario, obs: &mut Obs) -> Judge {
    let (r, _f, fa) = run_and_judge(dir, sc, obs, &OWNED)?;
    let w = sc.ws as u64;
    // a window boundary within 2 blocks of the wrap (lossless windows end at multiples of W)
    let near = [65534u64, 65535, 65536, 65537].iter().any(|b| b % w == 0) || w > 32767;
    obs.class_if(w > 32767, "window-above-32767-blocks");
    obs.class_if(near, "window-boundary-at-wrap");
    obs.class_if(sc.nblocks() > 131071, "two-wraps");
    obs.nontrivial = fa.crossed_wrap && (!r.hits.is_empty() || near);
    let _ = &r;
    if sc.nfaults() < 6 && sc.dally {
        match sc.role {
            Role::Sender => {
                if !(r.peer_done && r.peer_data == r.file) {
                    viol!("wrap-download-corrupt-or-incomplete", "the model client ended with done={} and {} of {} bytes (identical: {}) | hits {:?} | {}", r.peer_done, r.peer_data.len(), r.file.len(), r.peer_data == r.file, r.hits.iter().map(|h| format!("#{} {:?} {:?} {}", h.0, h.1, h.2, hex(&h.3))).collect::<Vec<_>>(), describe(sc));
                }
                if !fa.completed {
                    viol!("wrap-download-failed", "the sending worker did not complete a {}-block transfer | {}", sc.nblocks(), describe(sc));
                }
            }
            Role::Receiver => {
                if !(fa.completed && r.file_after.as_deref() == Some(&r.file[..])) {
                    viol!("wrap-upload-corrupt-or-incomplete", "the receiving worker ended with completed={} and a file of {:?} bytes, expected {} | {}", fa.completed, r.file_after.as_ref().map(|f| f.len()), r.file.len(), describe(sc));
                }
            }
        }
    }
    Ok(())
}

/// emission index (both directions counted) of DATA block b in a lossless run
fn emission_of_block(b: u64, w: u64, role: Role) -> usize {
    // per full window: W data + 1 ack
    let windows_before = (b - 1) / w;
    let idx = (b - 1) + windows_before;
    let _ = role;
    idx as usize
}

pub fn strategy() -> BoxedStrategy<Scenario> {
    (
        prop_oneof![Just(Role::Sender), Just(Role::Receiver)],
        prop_oneof![
            3 => prop::sample::select(vec![1u16, 2, 3, 7, 8, 16, 64, 1000]),
            // windows that end exactly before / at / after block 65535
            3 => prop::sample::select(vec![14u16, 31, 62, 151, 5, 15, 17, 51, 85, 255, 257, 4, 32, 256, 1024, 4096, 32767, 21845, 13107]),
            1 => 1u16..=2000,
        ],
        prop_oneof![
            6 => prop::sample::select(vec![65534usize, 65535, 65536, 65537, 65538]),
            1 => prop::sample::select(vec![131071usize, 131072, 131073]),
        ],
        0usize..8,
        any::<u64>(),
        proptest::collection::vec((0usize..12, prop_oneof![3 => Just(Fate::Drop), 2 => Just(Fate::Dup), 1 => Just(Fate::Swap), 1 => Just(Fate::Late)]), 0..3),
        any::<bool>(),
    )
        .prop_map(|(role, ws, blocks, rem, seed, faults, gap)| {
            let blk = 8usize;
            let mut sc = Scenario::lossless(role, blk, ws, (blocks - 1) * blk + rem, seed);
            sc.gap_ack = gap;
            // place the faults in the windows that contain blocks 65534..65537
            let w = ws as u64;
            let first = emission_of_block(65534u64.saturating_sub(w).max(1), w, role);
            let last = emission_of_block(65537, w, role) + 2;
            let span = (last - first).max(1);
            let mut fates = vec![];
            for (pos, f) in faults {
                let p = (pos * span) / 12;
                if fates.len() <= p {
                    fates.resize(p + 1, Fate::Deliver);
                }
                fates[p] = f;
            }
            sc.fates = fates;
            sc.fates_at = first;
            sc.after = After::Honest;
            sc
        })
        .boxed()
}

/// every single drop/dup fault on every datagram (either direction) of the windows around the wrap
fn single_faults_at_wrap(ws_list: &[u16]) -> Vec<Scenario> {
    let blk = 8usize;
    let mut out = vec![];
    for role in [Role::Sender, Role::Receiver] {
        for &ws in ws_list {
            let w = ws as u64;
            let first = emission_of_block(65534u64.saturating_sub(w).max(1), w, role);
            let last = emission_of_block(65538, w, role) + 3;
            for p in first..last {
                for f in [Fate::Drop, Fate::Dup, Fate::Late] {
                    for gap in [true, false] {
                        if !gap && f != Fate::Drop {
                            continue;
                        }
                        let mut sc = Scenario::lossless(role, blk, ws, 65538 * blk + 5, 0x15 + ws as u64);
                        sc.fates = vec![f];
                        sc.fates_at = p;
                        sc.gap_ack = gap;
                        out.push(sc);
                    }
                }
            }
        }
    }
    out
}

/// windows of more than 32768 blocks that really fill: acknowledgement distances beyond half the number space
pub fn huge_window_cases() -> Vec<Scenario> {
    let mut out = vec![];
    for role in [Role::Sender, Role::Receiver] {
        // (blksize, windowsize, blocks): more than 32768 blocks per window; more than 1 MiB and more than 32 MiB per window
        for (blk, ws, blocks) in [(8usize, 32768u16, 32770usize), (8, 40000, 70000), (65464, 600, 602), (8, 65535, 70000), (1428, 800, 1700), (8, 32769, 65540), (8, 65535, 131074)] {
            let sc = Scenario::lossless(role, blk, ws, blocks * blk + 3, 0x1500 + ws as u64);
            out.push(sc);
        }
    }
    out
}

pub fn run(ctx: &Ctx) {
    sim::init();
    ctx.set_rule("transfers of 65534..65538 and 131071..131073 blocks (blksize 8) through the real worker in both roles; windowsize from {1,2,3,7,8,16,64,1000}, from divisors of 65534/65535/65536 so that a window ends exactly before/at/after the wrap, and random <=2000; 0-2 drop/dup/swap/late faults placed in the windows that contain blocks 65534..65537. File content encodes the absolute offset, so a block attributed 65536 positions away never matches. Exhaustive part: every single drop/duplicate/late fault on every datagram of either direction in the windows around block 65536 for windowsize {1,2,4,5} (thorough: 10 sizes), 65539-block transfers, both roles. Oracle: S1-S4 (content, final block, window, consecutive bursts) / R1, R2, R5 (ACK never ahead, file on disk at every ACK, final file) with absolute block indices, both sides complete with byte-identical data. A wire part runs tftpc against tftpd for a 65538-block download and upload (byte-identical files). Non-trivial = the transfer crossed the wrap and a fault hit there or a window boundary lies within 2 blocks of 65536; distinct = distinct (scenario, trace shape).");
    let dirs = DirPool::new(ctx, "c15");
    explore_n(ctx, "wrap", ctx.tier.pick(640, 8000), shards(), 32, strategy, |c: &Scenario, o| dirs.with(|d| judge(d, c, o)));
    let ws_list: Vec<u16> = ctx.tier.pick(vec![1, 2, 4, 5], vec![1, 2, 3, 4, 5, 7, 8, 15, 16, 17]);
    let cases = single_faults_at_wrap(&ws_list);
    enumerate(ctx, "exh-single-fault-at-wrap", &cases, true, |c, o| dirs.with(|d| judge(d, c, o)));
    let huge = huge_window_cases();
    let nh = ctx.tier.pick(8, huge.len());
    enumerate(ctx, "huge-windows", &huge[..nh], false, |c, o| dirs.with(|d| judge(d, c, o)));
    // the real binaries across the wrap: tftpc against tftpd, 65538 blocks of 8 bytes, one download and one upload (thorough: four)
    let wraps = super::c14::wrap_cases();
    let n = ctx.tier.pick(2, wraps.len());
    let wraps: Vec<super::c14::Case> = if ctx.tier == Tier::Quick { vec![wraps[0].clone(), wraps[4].clone()] } else { wraps };
    enumerate(ctx, "wire-beyond-65535-blocks", &wraps[..n.min(wraps.len())], false, |c, o| dirs.with(|d| super::c14::judge(d, c, o)));
}

pub fn replay(ctx: &Ctx, part: &str, case: &Value) -> bool {
    if part.starts_with("wire-") {
        return super::c14::replay(ctx, part, case);
    }
    sim::init();
    let dirs = DirPool::new(ctx, "c15");
    replay_one(ctx, part, case, |c: &Scenario, o| dirs.with(|d| judge(d, c, o)))
}
