//! C07 wire part: the real server gives up after a bounded number of retransmissions (real sockets, real timeouts).

use crate::common::*;
use crate::refcodec::{self, RDec, RPacket};
use crate::viol;
use crate::wclient;
use crate::wire::{self, Client, Server, StartError};
use serde::{Deserialize, Serialize};
use serde_json::Value;
use std::path::Path;
use std::time::{Duration, Instant};

#[derive(Clone, Debug, Serialize, Deserialize)]
pub struct Case {
    pub single: bool,
    pub write: bool,
    /// None = no timeout option (server default 5 s)
    pub timeout: Option<u8>,
    /// observe the whole give-up (needs 6 x timeout) or only the first retransmission
    pub full: bool,
    /// the peer sends an ERROR with a long message instead of falling silent
    pub long_error: bool,
}

fn run_case(dir: &Path, c: &Case) -> Result<Vec<&'static str>, (String, String)> {
    let root = dir.join("c07w");
    let _ = std::fs::remove_dir_all(&root);
    let d = root.join("d");
    std::fs::create_dir_all(&d).unwrap();
    let file = content(7, 900);
    std::fs::write(d.join("f.bin"), &file).unwrap();
    let mut args = vec![wire::s("-d"), d.to_string_lossy().to_string()];
    if c.single {
        args.push(wire::s("-s"));
    }
    let mut srv = match Server::start(&args, &root) {
        Ok(s) => s,
        Err(StartError::Exited(code, e)) => return Err(("harness".into(), format!("tftpd exited at start-up with {}: {}", code, e))),
        Err(StartError::Harness(e)) => return Err(("harness".into(), e)),
    };
    let t = c.timeout.map(|x| x as u64).unwrap_or(5);
    let opts: Vec<(String, String)> = match c.timeout {
        Some(x) => vec![("timeout".into(), x.to_string())],
        None => vec![],
    };
    let cl = Client::new();
    let mut classes = vec![];
    let start = wclient::start(&cl, srv.addr, c.write, if c.write { "up.bin" } else { "f.bin" }, &opts, Duration::from_secs(3));
    let (neg, first_data) = match start {
        wclient::Start::Accepted { neg, first_data } => (neg, first_data),
        other => return Err(("harness".into(), format!("request not accepted: {:?}", other))),
    };
    if c.long_error {
        // a well-formed ERROR whose message is longer than the transfer's receive buffer
        if !c.write && first_data.is_none() {
            let _ = cl.recv(Duration::from_secs(2)); // DATA 1 after our ACK 0
        }
        let msg = "x".repeat(700);
        cl.send(&refcodec::error(3, &msg), neg.peer);
        // the transfer must end at once: nothing more arrives
        let later = cl.drain(Duration::from_millis((t * 1000 + 1500).min(3000)));
        let extra: Vec<String> = later.iter().map(|(b, _)| format!("{:?}", refcodec::decode(b))).filter(|s| s.contains("Data") || s.contains("Ack")).collect();
        if !extra.is_empty() {
            return Err(("continued-after-error".into(), format!("after an ERROR with a 700-character message the server still sent {:?}", extra)));
        }
        classes.push("long-error-ends-transfer");
        if c.write {
            std::thread::sleep(Duration::from_millis(100));
            if d.join("up.bin").exists() {
                return Err(("continued-after-error".into(), "after the peer's ERROR the partial upload is still there (the worker did not end)".into()));
            }
        }
        drop(srv);
        let _ = std::fs::remove_dir_all(&root);
        return Ok(classes);
    }
    if c.write {
        // we never send DATA: the worker must give up and remove its (empty) file within 6 timeouts
        let t0 = Instant::now();
        // "bounded": far above the implementation's budget of 6, so that a different (but finite) budget does not alarm
        let limit = Duration::from_millis(20 * t * 1000 + 2500);
        let mut gone_at = None;
        if !c.full {
            classes.push("upload-silence-not-waited-for");
        } else {
            // the worker thread creates the file a moment after the request was accepted
            let tc = Instant::now();
            while !d.join("up.bin").exists() && tc.elapsed() < Duration::from_secs(2) {
                std::thread::sleep(Duration::from_millis(5));
            }
            if !d.join("up.bin").exists() {
                return Err(("harness".into(), "the accepted upload never created its file".into()));
            }
            while t0.elapsed() < limit {
                if !d.join("up.bin").exists() {
                    gone_at = Some(t0.elapsed());
                    break;
                }
                std::thread::sleep(Duration::from_millis(50));
            }
            match gone_at {
                None => return Err(("never-gives-up".into(), format!("after {:?} of silence the abandoned upload's file is still there: the worker has not given up (timeout {} s, budget 6)", limit, t))),
                Some(_el) => {
                    classes.push("upload-abandoned-cleaned-up");
                }
            }
        }
    } else {
        // after DATA 1 we stay silent and count retransmissions
        let mut seen = 0;
        if first_data.is_some() {
            seen = 1;
        } else if let Some((b, _)) = cl.recv(Duration::from_secs(2)) {
            if matches!(refcodec::decode(&b), RDec::Ok(RPacket::Data { block: 1, .. })) {
                seen = 1;
            }
        }
        if seen == 0 {
            return Err(("harness".into(), "no DATA 1".into()));
        }
        let t0 = Instant::now();
        // with the server's default timeout (no option) only "it does retransmit" is demanded - the value of the default is
        // not part of any property
        let first_limit = if c.timeout.is_none() { Duration::from_secs(20) } else { Duration::from_millis(t * 1000 + 3500) };
        let mut first_at = None;
        while t0.elapsed() < first_limit {
            if let Some((b, _)) = cl.recv(Duration::from_millis(100)) {
                if matches!(refcodec::decode(&b), RDec::Ok(RPacket::Data { block: 1, .. })) {
                    first_at = Some(t0.elapsed());
                    seen += 1;
                    break;
                }
            }
        }
        match first_at {
            None => return Err(("no-retransmission".into(), format!("DATA 1 was not retransmitted within {:?} of silence (timeout {} s{}): the transfer neither retries nor can it give up", first_limit, t, if c.timeout.is_none() { ", server default" } else { "" }))),
            Some(el) => {
                if c.timeout.is_some() && el + Duration::from_millis(150) < Duration::from_secs(t) {
                    return Err(("early-retransmission".into(), format!("DATA 1 retransmitted after {:?}, timeout {} s", el, t)));
                }
            }
        }
        classes.push("first-retransmission-seen");
        if c.full {
            // total transmissions are bounded: MAX_RETRIES receive attempts
            let limit = Duration::from_millis(20 * t * 1000 + 2500);
            let mut last = Instant::now();
            while t0.elapsed() < limit {
                if let Some((b, _)) = cl.recv(Duration::from_millis(100)) {
                    if matches!(refcodec::decode(&b), RDec::Ok(RPacket::Data { .. })) {
                        seen += 1;
                        last = Instant::now();
                    }
                }
                if last.elapsed() > Duration::from_millis(t * 1000 + 1800) {
                    break;
                }
            }
            if last.elapsed() <= Duration::from_millis(t * 1000 + 1500) {
                return Err(("never-gives-up".into(), format!("the server was still retransmitting after {:?} ({} transmissions of DATA 1)", limit, seen)));
            }
            if seen > 21 {
                return Err(("never-gives-up".into(), format!("{} transmissions of DATA 1 without giving up", seen)));
            }
            classes.push("gave-up-after-bounded-retries");
        }
    }
    if let Some(st) = srv.exit_status() {
        return Err(("server-terminated".into(), format!("tftpd exited ({})", st)));
    }
    drop(srv);
    let _ = std::fs::remove_dir_all(&root);
    Ok(classes)
}

pub fn judge(dir: &Path, c: &Case, obs: &mut Obs) -> Judge {
    obs.class(if c.single { "wire-single-port" } else { "wire-multi-port" });
    obs.class_if(c.timeout.is_none(), "wire-default-timeout");
    obs.nontrivial = true;
    let r = match run_case(dir, c) {
        Err((sig, d)) if sig != "harness" => match run_case(dir, c) {
            Ok(k) => {
                obs.inconclusive = Some(format!("failed once ({}: {}), passed on the isolated re-run", sig, d));
                Ok(k)
            }
            other => other,
        },
        other => other,
    };
    match r {
        Ok(k) => {
            for x in k {
                obs.class(x);
            }
            Ok(())
        }
        Err((sig, d)) if sig == "harness" => {
            obs.inconclusive = Some(d);
            Ok(())
        }
        Err((sig, d)) => viol!(format!("wire-{}", sig), "{} | {:?}", d, c),
    }
}

pub fn run_wire(ctx: &Ctx) {
    let dirs = DirPool::new(ctx, "c07w");
    let mut cases = vec![];
    for single in [false, true] {
        // default timeout: first retransmission only (5 s); thorough: the whole give-up (30 s)
        cases.push(Case { single, write: false, timeout: None, full: ctx.tier == Tier::Thorough, long_error: false });
        cases.push(Case { single, write: false, timeout: Some(1), full: true, long_error: false });
        cases.push(Case { single, write: true, timeout: Some(1), full: true, long_error: false });
        cases.push(Case { single, write: false, timeout: Some(1), full: false, long_error: true });
        cases.push(Case { single, write: true, timeout: Some(1), full: false, long_error: true });
        if ctx.tier == Tier::Thorough {
            cases.push(Case { single, write: true, timeout: None, full: true, long_error: false });
            cases.push(Case { single, write: false, timeout: Some(2), full: true, long_error: false });
        }
    }
    enumerate(ctx, "wire-silence-and-error", &cases, false, |c, o| dirs.with(|d| judge(d, c, o)));
}

pub fn replay(ctx: &Ctx, part: &str, case: &Value) -> bool {
    let dirs = DirPool::new(ctx, "c07w");
    replay_one(ctx, part, case, |c: &Case, o| dirs.with(|d| judge(d, c, o)))
}
