//! C04 wire part: consecutive losses below the retry budget against the real tftpd (negotiated timeout 1 s).

use crate::common::*;
use crate::refcodec::{self, RDec, RPacket};
use crate::viol;
use crate::wclient::{self, Start};
use crate::wire::{self, Client, Server, StartError};
use serde::{Deserialize, Serialize};
use serde_json::Value;
use std::path::Path;
use std::time::{Duration, Instant};

#[derive(Clone, Debug, Serialize, Deserialize)]
pub struct Case {
    pub single: bool,
    pub upload: bool,
    /// the client "loses" this many consecutive copies of one datagram of the server (DATA j / ACK j)
    pub losses: u8,
    pub at_block: u8,
    pub ws: u16,
}

fn run_case(dir: &Path, c: &Case) -> Result<(), (String, String)> {
    let root = dir.join("c04w");
    let _ = std::fs::remove_dir_all(&root);
    let d = root.join("d");
    std::fs::create_dir_all(&d).unwrap();
    let blk = 16usize;
    let data = content(4, blk * 6 + 5);
    std::fs::write(d.join("f.bin"), &data).unwrap();
    let mut args = vec![wire::s("-d"), d.to_string_lossy().to_string()];
    if c.single {
        args.push(wire::s("-s"));
    }
    let mut srv = match Server::start(&args, &root) {
        Ok(s) => s,
        Err(StartError::Exited(code, e)) => return Err(("harness".into(), format!("tftpd exited at start-up with {}: {}", code, e))),
        Err(StartError::Harness(e)) => return Err(("harness".into(), e)),
    };
    let opts = vec![("timeout".to_string(), "1".to_string()), ("blksize".to_string(), blk.to_string()), ("windowsize".to_string(), c.ws.to_string())];
    let cl = Client::new();
    let (neg, _) = match wclient::start(&cl, srv.addr, c.upload, if c.upload { "up.bin" } else { "f.bin" }, &opts, Duration::from_secs(3)) {
        Start::Accepted { neg, first_data } => (neg, first_data),
        other => return Err(("harness".into(), format!("request not accepted: {:?}", other))),
    };
    let n_blocks = data.len() / blk + 1;
    let target = (c.at_block as usize % n_blocks) + 1;
    let t0 = Instant::now();
    if !c.upload {
        // in-order reassembly; the first `losses` windows that contain block `target` as next expected block are ignored completely
        let mut got: Vec<u8> = vec![];
        let mut next = 1usize;
        let mut count = 0usize;
        let mut lost = 0u8;
        let mut dropping_until: Option<Instant> = None;
        while next <= n_blocks {
            if t0.elapsed() > Duration::from_secs(14) {
                return Err(("download-failed".into(), format!("download did not complete within 14 s after {} consecutive lost copies of DATA {} (timeout 1 s, budget 6); got {} of {} bytes; server stderr: {}", c.losses, target, got.len(), data.len(), srv.stderr_tail())));
            }
            let Some((b, _)) = cl.recv(Duration::from_millis(200)) else { continue };
            let RDec::Ok(RPacket::Data { block, data: payload }) = refcodec::decode(&b) else { continue };
            if let Some(t) = dropping_until {
                if Instant::now() < t {
                    continue; // the rest of a lost burst
                }
                dropping_until = None;
            }
            if block as usize != next {
                continue;
            }
            if next == target && lost < c.losses {
                // this copy (and the rest of its burst) is lost on the way
                lost += 1;
                dropping_until = Some(Instant::now() + Duration::from_millis(150));
                continue;
            }
            got.extend_from_slice(&payload);
            next += 1;
            count += 1;
            if payload.len() < blk || count == neg.ws {
                cl.send(&refcodec::ack(block), neg.peer);
                count = 0;
            }
        }
        if got != data {
            return Err(("download-content".into(), "content differs".into()));
        }
    } else {
        // lock-step upload (windows of ws); the ACK of the window ending at/after `target` is "lost" `losses` times: we resend the window after 1.1 s
        let mut next = 1usize;
        let mut lost = 0u8;
        while next <= n_blocks {
            let count = neg.ws.min(n_blocks + 1 - next);
            let send_window = || {
                for i in 0..count {
                    let abs = next + i;
                    let s = (abs - 1) * blk;
                    let e = (s + blk).min(data.len());
                    cl.send(&refcodec::data(abs as u16, &data[s..e]), neg.peer);
                }
            };
            send_window();
            let last = next + count - 1;
            loop {
                if t0.elapsed() > Duration::from_secs(14) {
                    return Err(("upload-failed".into(), format!("upload did not complete within 14 s after {} consecutive lost ACKs (timeout 1 s, budget 6); server stderr: {}", c.losses, srv.stderr_tail())));
                }
                match cl.recv(Duration::from_millis(1100)) {
                    Some((b, _)) => {
                        if let RDec::Ok(RPacket::Ack(k)) = refcodec::decode(&b) {
                            if k as usize == last {
                                if last >= target && lost < c.losses {
                                    lost += 1; // pretend it never arrived: our timer fires, we retransmit the window
                                    std::thread::sleep(Duration::from_millis(1100));
                                    let _ = cl.drain(Duration::from_millis(1));
                                    send_window();
                                    continue;
                                }
                                break;
                            }
                        } else if let RDec::Ok(RPacket::Error { code, msg }) = refcodec::decode(&b) {
                            return Err(("upload-failed".into(), format!("server sent ERROR {} {:?} after {} lost ACKs", code, msg, lost)));
                        }
                    }
                    None => send_window(),
                }
            }
            next += count;
        }
        std::thread::sleep(Duration::from_millis(50));
        let stored = std::fs::read(d.join("up.bin")).unwrap_or_default();
        if stored != data {
            return Err(("upload-content".into(), format!("stored {} bytes, sent {}", stored.len(), data.len())));
        }
    }
    if let Some(st) = srv.exit_status() {
        return Err(("server-terminated".into(), format!("tftpd exited ({})", st)));
    }
    drop(srv);
    let _ = std::fs::remove_dir_all(&root);
    Ok(())
}

pub fn judge(dir: &Path, c: &Case, obs: &mut Obs) -> Judge {
    obs.class(if c.single { "wire-single-port" } else { "wire-multi-port" });
    obs.class(if c.upload { "wire-upload" } else { "wire-download" });
    obs.nontrivial = c.losses > 0;
    let r = match run_case(dir, c) {
        Err((sig, d)) if sig != "harness" => match run_case(dir, c) {
            Ok(()) => {
                obs.inconclusive = Some(format!("failed once ({}: {}), passed on the isolated re-run", sig, d));
                Ok(())
            }
            other => other,
        },
        other => other,
    };
    match r {
        Ok(()) => Ok(()),
        Err((sig, d)) if sig == "harness" => {
            obs.inconclusive = Some(d);
            Ok(())
        }
        Err((sig, d)) => viol!(format!("wire-{}", sig), "{} | {:?}", d, c),
    }
}

pub fn run_wire(ctx: &Ctx) {
    let dirs = DirPool::new(ctx, "c04w");
    let mut cases = vec![];
    let max = ctx.tier.pick(3u8, 5u8);
    for single in [false, true] {
        for upload in [false, true] {
            for losses in 1..=max {
                for (at_block, ws) in [(0u8, 1u16), (3, 2)] {
                    if losses < max && ws == 2 && !ctx.tier.pick(false, true) {
                        continue;
                    }
                    cases.push(Case { single, upload, losses, at_block, ws });
                }
            }
        }
    }
    enumerate(ctx, "wire-consecutive-losses", &cases, false, |c, o| dirs.with(|d| judge(d, c, o)));
    let relay = relay_cases(ctx.tier == Tier::Thorough);
    enumerate(ctx, "wire-tftpc-through-lossy-relay", &relay, false, |c, o| dirs.with(|d| judge_relay(d, c, o)));
}

pub fn replay(ctx: &Ctx, part: &str, case: &Value) -> bool {
    let dirs = DirPool::new(ctx, "c04w");
    if part == "wire-tftpc-through-lossy-relay" || part.starts_with("wire-relay-") {
        return replay_one(ctx, part, case, |c: &RelayCase, o| dirs.with(|d| judge_relay(d, c, o)));
    }
    replay_one(ctx, part, case, |c: &Case, o| dirs.with(|d| judge(d, c, o)))
}

// ---------------------------------------------------------------------------------------------
// The real tftpc against the real tftpd through a lossy UDP relay (single-port server, so that the relay needs
// exactly one socket towards the server): the bundled client sets its own socket timeouts, which no simulated
// socket can see.

#[derive(Clone, Debug, Serialize, Deserialize)]
pub struct RelayCase {
    pub upload: bool,
    /// drop the n-th datagram (0-based) travelling from the server to the client / from the client to the server
    pub drop_to_client: Vec<u32>,
    pub drop_to_server: Vec<u32>,
    pub blk: u32,
    pub ws: u16,
    pub len: usize,
    /// duplicate the n-th datagram of a direction
    #[serde(default)]
    pub dup_to_client: Vec<u32>,
    #[serde(default)]
    pub dup_to_server: Vec<u32>,
    /// hold the n-th datagram of a direction back until the next one of that direction has passed (reordering)
    #[serde(default)]
    pub swap_to_client: Vec<u32>,
    #[serde(default)]
    pub swap_to_server: Vec<u32>,
    /// only demand "identical or absent", not completion (more than one loss)
    #[serde(default)]
    pub completion_optional: bool,
    /// value of tftpc's -t (the timeout it negotiates), seconds
    #[serde(default = "one")]
    pub timeout_s: u8,
}

fn one() -> u8 {
    1
}

fn run_relay(dir: &Path, c: &RelayCase) -> Result<(), (String, String)> {
    use std::net::UdpSocket;
    use std::process::{Command, Stdio};
    let root = dir.join("c04r");
    let _ = std::fs::remove_dir_all(&root);
    let sdir = root.join("srv");
    let cdir = root.join("cli");
    std::fs::create_dir_all(&sdir).unwrap();
    std::fs::create_dir_all(cdir.join("out")).unwrap();
    let data = content(404, c.len);
    if c.upload {
        std::fs::write(cdir.join("f.bin"), &data).unwrap();
    } else {
        std::fs::write(sdir.join("f.bin"), &data).unwrap();
    }
    let args = vec![wire::s("-d"), sdir.to_string_lossy().to_string(), wire::s("-s")];
    let mut srv = match Server::start(&args, &root) {
        Ok(s) => s,
        Err(StartError::Exited(code, e)) => return Err(("harness".into(), format!("tftpd exited at start-up with {}: {}", code, e))),
        Err(StartError::Harness(e)) => return Err(("harness".into(), e)),
    };
    // relay: client <-> front, back <-> server
    let front = UdpSocket::bind(format!("{}:0", wire::local_ip())).map_err(|e| ("harness".to_string(), e.to_string()))?;
    let back = UdpSocket::bind(format!("{}:0", wire::local_ip())).map_err(|e| ("harness".to_string(), e.to_string()))?;
    let front_port = front.local_addr().unwrap().port();
    front.set_read_timeout(Some(Duration::from_millis(5))).unwrap();
    back.set_read_timeout(Some(Duration::from_millis(5))).unwrap();
    let mut cargs = vec![wire::s("f.bin"), wire::s("-i"), wire::local_ip(), wire::s("-p"), front_port.to_string(), wire::s("-b"), c.blk.to_string(), wire::s("-w"), c.ws.to_string(), wire::s("-t"), c.timeout_s.to_string()];
    if c.upload {
        cargs.push(wire::s("-u"));
    } else {
        cargs.push(wire::s("-d"));
        cargs.push(wire::s("-rd"));
        cargs.push(wire::s("out"));
    }
    let err_p = cdir.join("tftpc.err");
    let mut child = Command::new(wire::bindir().join("tftpc"))
        .args(&cargs)
        .current_dir(&cdir)
        .stdin(Stdio::null())
        .stdout(Stdio::null())
        .stderr(std::fs::File::create(&err_p).unwrap())
        .spawn()
        .map_err(|e| ("harness".to_string(), format!("cannot spawn tftpc: {}", e)))?;
    let t0 = Instant::now();
    let mut client_addr = None;
    let (mut n_to_client, mut n_to_server) = (0u32, 0u32);
    let mut dropped = 0;
    let mut buf = vec![0u8; 65536];
    let mut exited_at: Option<Instant> = None;
    let mut held_to_server: Option<Vec<u8>> = None;
    let mut held_to_client: Option<Vec<u8>> = None;
    let mut last_release = Instant::now();
    loop {
        if let Ok((n, from)) = front.recv_from(&mut buf) {
            client_addr = Some(from);
            let k = n_to_server;
            n_to_server += 1;
            if c.drop_to_server.contains(&k) {
                dropped += 1;
            } else if c.swap_to_server.contains(&k) && held_to_server.is_none() {
                held_to_server = Some(buf[..n].to_vec());
            } else {
                let _ = back.send_to(&buf[..n], srv.addr);
                if c.dup_to_server.contains(&k) {
                    let _ = back.send_to(&buf[..n], srv.addr);
                }
                if let Some(h) = held_to_server.take() {
                    let _ = back.send_to(&h, srv.addr);
                }
            }
        }
        if let Ok((n, _)) = back.recv_from(&mut buf) {
            if let Some(ca) = client_addr {
                let k = n_to_client;
                n_to_client += 1;
                if c.drop_to_client.contains(&k) {
                    dropped += 1;
                } else if c.swap_to_client.contains(&k) && held_to_client.is_none() {
                    held_to_client = Some(buf[..n].to_vec());
                } else {
                    let _ = front.send_to(&buf[..n], ca);
                    if c.dup_to_client.contains(&k) {
                        let _ = front.send_to(&buf[..n], ca);
                    }
                    if let Some(h) = held_to_client.take() {
                        let _ = front.send_to(&h, ca);
                    }
                }
            }
        }
        // a held datagram is not lost: it arrives late if nothing else follows in its direction
        if last_release.elapsed() > Duration::from_millis(300) {
            last_release = Instant::now();
            if let Some(h) = held_to_server.take() {
                let _ = back.send_to(&h, srv.addr);
            }
            if let (Some(h), Some(ca)) = (held_to_client.take(), client_addr) {
                let _ = front.send_to(&h, ca);
            }
        }
        if exited_at.is_none() {
            if let Ok(Some(_)) = child.try_wait() {
                exited_at = Some(Instant::now());
            }
        }
        // keep relaying a little after the client left (the server's last datagrams), then stop
        if let Some(t) = exited_at {
            if t.elapsed() > Duration::from_millis(150) {
                break;
            }
        }
        let watchdog = 25 + 3 * c.timeout_s as u64;
        if t0.elapsed() > Duration::from_secs(watchdog) {
            let _ = child.kill();
            let _ = child.wait();
            return Err(("client-hung".into(), format!("tftpc did not finish within {} s ({} datagrams dropped by the relay)", watchdog, dropped)));
        }
    }
    let cerr = std::fs::read_to_string(&err_p).unwrap_or_default();
    let serr = srv.stderr_tail();
    let sout = srv.stdout_text();
    let got = if c.upload { std::fs::read(sdir.join("f.bin")).ok() } else { std::fs::read(cdir.join("out").join("f.bin")).ok() };
    let alive = srv.exit_status().is_none();
    drop(srv);
    let _ = std::fs::remove_dir_all(&root);
    if !alive {
        return Err(("server-terminated".into(), "tftpd exited".into()));
    }
    if dropped as usize != c.drop_to_client.len() + c.drop_to_server.len() {
        // the transfer ended before the planned datagram existed: nothing was lost, nothing to judge beyond completion
    }
    if let Some(g) = &got {
        // an upload that failed may still have its partial file on the server (the server's worker has not given up yet):
        // a proper prefix that nobody declared complete is "no completed copy", not a corrupted one
        // (the client reports every failure on stderr; log wording of the server is not relied upon)
        let declared_complete = cerr.trim().is_empty();
        let _ = &sout;
        let proper_prefix = g.len() < data.len() && g[..] == data[..g.len()];
        if g != &data && !(proper_prefix && !declared_complete) {
            return Err(("corrupted-copy".into(), format!("{} through a relay (drops to client {:?} / to server {:?}, dups {:?}/{:?}, swaps {:?}/{:?}): the receiving side holds {} bytes that differ from the {} bytes sent; tftpc stderr {:?}", if c.upload { "upload" } else { "download" }, c.drop_to_client, c.drop_to_server, c.dup_to_client, c.dup_to_server, c.swap_to_client, c.swap_to_server, g.len(), data.len(), cerr.trim())));
        }
    }
    if got.as_deref() != Some(&data[..]) && !c.completion_optional {
        return Err((
            "transfer-failed-after-few-losses".into(),
            format!(
                "{} of {} bytes through a relay that dropped {} datagram(s) (to client {:?}, to server {:?}; dups {:?}/{:?}, swaps {:?}/{:?}; negotiated timeout {} s, retry budget 6): the receiving side holds nothing after {:?}; tftpc stderr {:?}; tftpd stderr {}",
                if c.upload { "upload" } else { "download" },
                data.len(),
                dropped,
                c.drop_to_client,
                c.drop_to_server,
                c.dup_to_client,
                c.dup_to_server,
                c.swap_to_client,
                c.swap_to_server,
                c.timeout_s,
                t0.elapsed(),
                cerr.trim(),
                serr
            ),
        ));
    }
    Ok(())
}

pub fn judge_relay(dir: &Path, c: &RelayCase, obs: &mut Obs) -> Judge {
    obs.class(if c.upload { "relay-upload" } else { "relay-download" });
    obs.nontrivial = !c.drop_to_client.is_empty() || !c.drop_to_server.is_empty() || !c.dup_to_client.is_empty() || !c.dup_to_server.is_empty() || !c.swap_to_client.is_empty() || !c.swap_to_server.is_empty();
    obs.class_if(!c.dup_to_client.is_empty() || !c.dup_to_server.is_empty(), "relay-duplicates");
    obs.class_if(!c.swap_to_client.is_empty() || !c.swap_to_server.is_empty(), "relay-reordering");
    obs.class_if(c.completion_optional && !c.drop_to_client.is_empty(), "relay-losses-completion-optional");
    let r = match run_relay(dir, c) {
        Err((sig, d)) if sig != "harness" => match run_relay(dir, c) {
            Ok(()) => {
                obs.inconclusive = Some(format!("failed once ({}: {}), passed on the isolated re-run", sig, d));
                Ok(())
            }
            other => other,
        },
        other => other,
    };
    match r {
        Ok(()) => Ok(()),
        Err((sig, d)) if sig == "harness" => {
            obs.inconclusive = Some(d);
            Ok(())
        }
        Err((sig, d)) => viol!(format!("relay-{}", sig), "{} | {:?}", d, c),
    }
}

pub fn relay_cases(thorough: bool) -> Vec<RelayCase> {
    let mut out = vec![];
    for upload in [false, true] {
        // the handshake is never dropped (outside C04). download: to_server 0 = RRQ, 1 = ACK 0 (reply to the OACK), 2.. = ACKs of data;
        // to_client 0 = OACK, 1.. = DATA. upload: to_server 0 = WRQ, 1.. = DATA; to_client 0 = OACK, 1.. = ACKs of data
        // single losses only: the bundled client retransmits on a fixed 5 s timer while its receive timeout follows -t, so with
        // -t 1 a second loss that hits the retransmission means 6 consecutive failed receive attempts - outside the property
        let single: Vec<(Vec<u32>, Vec<u32>)> = if upload {
            vec![(vec![], vec![]), (vec![1], vec![]), (vec![2], vec![]), (vec![], vec![1]), (vec![], vec![2]), (vec![], vec![3])]
        } else {
            vec![(vec![], vec![]), (vec![1], vec![]), (vec![2], vec![]), (vec![3], vec![]), (vec![], vec![2]), (vec![], vec![3])]
        };
        for (tc, ts) in single {
            out.push(RelayCase { upload, drop_to_client: tc.clone(), drop_to_server: ts.clone(), blk: 64, ws: 1, len: 64 * 5 + 7, dup_to_client: vec![], dup_to_server: vec![], swap_to_client: vec![], swap_to_server: vec![], completion_optional: false, timeout_s: 1 });
            if thorough {
                out.push(RelayCase { upload, drop_to_client: tc.clone(), drop_to_server: ts.clone(), blk: 512, ws: 3, len: 512 * 7, dup_to_client: vec![], dup_to_server: vec![], swap_to_client: vec![], swap_to_server: vec![], completion_optional: false, timeout_s: 1 });
            }
        }
    }
    if thorough {
        // a long negotiated timeout and one lost datagram (about 30 s each, real time): the transfer waits for the retransmission
        out.push(RelayCase { upload: true, drop_to_client: vec![], drop_to_server: vec![1], blk: 64, ws: 1, len: 64 * 2 + 7, dup_to_client: vec![], dup_to_server: vec![], swap_to_client: vec![], swap_to_server: vec![], completion_optional: false, timeout_s: 28 });
        out.push(RelayCase { upload: false, drop_to_client: vec![1], drop_to_server: vec![], blk: 64, ws: 1, len: 64 * 2 + 7, dup_to_client: vec![], dup_to_server: vec![], swap_to_client: vec![], swap_to_server: vec![], completion_optional: false, timeout_s: 31 });
    }
    out
}

/// random duplication and reordering (no loss, or losses with completion optional) between the real binaries
pub fn relay_strategy(upload: bool) -> proptest::strategy::BoxedStrategy<RelayCase> {
    use proptest::prelude::*;
    let idx = || proptest::collection::vec(1u32..14, 0..4);
    (idx(), idx(), idx(), idx(), prop::sample::select(vec![(64u32, 1u16), (64, 3), (512, 2), (1024, 4), (8, 5)]), 2usize..9, 0usize..60, proptest::collection::vec(2u32..10, 0..3), any::<bool>())
        .prop_map(move |(dc, ds, sc, ss, (blk, ws), blocks, rem, drops, lossy)| {
            // download: datagram 1 towards the server is the ACK 0 of the handshake - leave it alone
            let fix = |v: Vec<u32>| -> Vec<u32> { if upload { v } else { v.into_iter().filter(|k| *k != 1).collect() } };
            let sc_any = sc.is_empty();
            let ss_any = fix(ss.clone()).is_empty();
            RelayCase {
                upload,
                drop_to_client: if lossy { drops.clone() } else { vec![] },
                drop_to_server: vec![],
                blk,
                ws,
                len: blocks * blk as usize + rem % blk as usize,
                dup_to_client: dc,
                dup_to_server: fix(ds),
                swap_to_client: sc,
                swap_to_server: fix(ss),
                // a reordered block is discarded by an in-order receiver, i.e. it acts like a loss: completion is only demanded for pure duplication
                completion_optional: lossy || !sc_any || !ss_any,
                timeout_s: 1,
            }
        })
        .boxed()
}

pub fn run_relay_random(ctx: &Ctx, upload: bool) {
    let dirs = DirPool::new(ctx, "c04r");
    explore_n(ctx, if upload { "wire-relay-upload" } else { "wire-relay-download" }, ctx.tier.pick(64, 1_500), shards(), 12, move || relay_strategy(upload), |c: &RelayCase, o| dirs.with(|d| judge_relay(d, c, o)));
}
