//! Helpers shared by the sim-based property modules.

use crate::common::*;
use crate::pred::{self, Facts, Finding};
use crate::sim::{self, Role, Scenario, SimResult};
use std::path::Path;

pub fn describe(sc: &Scenario) -> String {
    format!(
        "role={:?} blk={} ws={} len={} ({} blocks) handshake={} repeat={} clean={} faults={} script={} timeout={}s",
        sc.role,
        sc.blk,
        sc.ws,
        sc.file_len,
        sc.nblocks(),
        sc.handshake,
        sc.repeat,
        sc.clean,
        sc.nfaults(),
        sc.script.len(),
        sc.timeout_s
    )
}

pub fn label(sc: &Scenario, r: &SimResult, fa: &Facts, obs: &mut Obs) {
    obs.shape = fa.shape;
    obs.class(if sc.role == Role::Sender { "worker-sends" } else { "worker-receives" });
    obs.class_if(sc.handshake, "handshake");
    obs.class_if(sc.file_len == 0, "empty-file");
    obs.class_if(sc.file_len % sc.blk == 0 && sc.file_len > 0, "exact-multiple");
    obs.class_if(sc.nblocks() == 1, "single-block");
    obs.class_if(!r.hits.is_empty(), "fault-hit");
    obs.class_if(r.hits.len() >= 2, "two-or-more-faults-hit");
    obs.class_if(fa.partial_acks > 0, "partial-ack");
    obs.class_if(fa.partial_after_eof > 0, "partial-ack-after-eof");
    obs.class_if(fa.dup_acks > 0, "duplicate-ack");
    obs.class_if(fa.stale_acks > 0, "stale-ack");
    obs.class_if(fa.future_acks > 0, "bogus-future-ack");
    obs.class_if(fa.retransmitted_blocks > 0, "retransmission");
    obs.class_if(fa.data_dups_delivered > 0, "duplicate-data-delivered");
    obs.class_if(fa.data_gaps_delivered > 0, "out-of-order-data-delivered");
    obs.class_if(fa.noise > 0, "stray-or-undecodable-delivered");
    obs.class_if(fa.timeouts > 0, "timeout");
    obs.class_if(fa.peer_error, "peer-error");
    obs.class_if(fa.completed, "completed");
    obs.class_if(sc.ws >= 65534, "ws>=65534");
    obs.class_if(fa.crossed_wrap, "crossed-wrap");
    obs.class_if(fa.near_timeout_bursts > 0, "burst-at-timeout-edge");
}

/// run + analyze + label; returns Err for the first finding whose predicate is in `owned`
pub fn run_and_judge(dir: &Path, sc: &Scenario, obs: &mut Obs, owned: &[&str]) -> Result<(SimResult, Vec<Finding>, Facts), Viol> {
    let r = sim::run(sc, dir);
    let (findings, fa) = pred::analyze(sc, &r);
    label(sc, &r, &fa, obs);
    for f in &findings {
        if owned.contains(&f.pred) {
            return Err(Viol::new(format!("{}-{}", if sc.role == Role::Sender { "sender" } else { "receiver" }, f.pred), format!("{} | {}", f.detail, describe(sc))));
        }
    }
    Ok((r, findings, fa))
}
