//! C03 Directory confinement (wire).

use crate::common::*;
use crate::refcodec::{self, RDec, RPacket};
use crate::viol;
use crate::wire::{self, Client, Entry, Server, StartError};
use proptest::prelude::*;
use serde::{Deserialize, Serialize};
use serde_json::Value;
use std::collections::BTreeMap;
use std::path::{Path, PathBuf};
use std::time::Duration;

#[derive(Clone, Debug, Serialize, Deserialize)]
pub struct Req {
    pub write: bool,
    pub name: String,
}

#[derive(Clone, Debug, Serialize, Deserialize)]
pub struct Case {
    /// 0 = shared -d, 1 = distinct -sd/-rd
    pub distinct: bool,
    pub relative_dirs: bool,
    pub overwrite: bool,
    pub single: bool,
    pub reqs: Vec<Req>,
}

pub struct Tree {
    pub root: PathBuf,
}

pub fn build_tree(dir: &Path) -> Tree {
    let root = dir.join("c03root");
    let _ = std::fs::remove_dir_all(&root);
    let mk = |rel: &str, body: &str| {
        let p = root.join(rel);
        std::fs::create_dir_all(p.parent().unwrap()).unwrap();
        std::fs::write(p, body).unwrap();
    };
    mk("srv/a.txt", "inside-srv-a");
    mk("srv/sub/b.txt", "inside-srv-sub-b");
    mk("srv-evil/e.txt", "OUTSIDE-srv-evil-e");
    mk("srvx/x.txt", "OUTSIDE-srvx-x");
    mk("rcv/r.txt", "inside-rcv-r");
    mk("rcv/sub/s.txt", "inside-rcv-sub-s");
    mk("rcv-evil/q.txt", "OUTSIDE-rcv-evil-q");
    mk("outside.txt", "OUTSIDE-root-file");
    mk("a.txt", "OUTSIDE-root-a");
    mk("cwd/c.txt", "OUTSIDE-cwd-c");
    mk("cwd/a.txt", "OUTSIDE-cwd-a");
    Tree { root }
}

fn placeholder(name: &str, root: &Path) -> String {
    name.replace("@ROOT", &root.to_string_lossy())
}

fn under(rel: &str, dir: &str) -> bool {
    rel == dir || rel.starts_with(&format!("{}/", dir))
}

fn run_case(dir: &Path, c: &Case) -> Result<Vec<&'static str>, (String, String)> {
    let tree = build_tree(dir);
    let root = &tree.root;
    let (send_rel, recv_rel) = if c.distinct { ("srv", "rcv") } else { ("srv", "srv") };
    let arg = |rel: &str| if c.relative_dirs { rel.to_string() } else { root.join(rel).to_string_lossy().to_string() };
    let mut args = if c.distinct { vec![wire::s("-sd"), arg("srv"), wire::s("-rd"), arg("rcv")] } else { vec![wire::s("-d"), arg("srv")] };
    if c.overwrite {
        args.push(wire::s("--overwrite"));
    }
    if c.single {
        args.push(wire::s("-s"));
    }
    let logdir = dir.join("c03logs");
    std::fs::create_dir_all(&logdir).unwrap();
    let mut srv = match Server::start_on(&wire::local_ip(), &args, &logdir, Some(&root.join(if c.relative_dirs { "." } else { "cwd" }))) {
        Ok(s) => s,
        Err(StartError::Exited(code, e)) => return Err(("harness".into(), format!("tftpd exited at start-up with {}: {}", code, e))),
        Err(StartError::Harness(e)) => return Err(("harness".into(), e)),
    };
    let mut classes = vec![];
    let initial = wire::snapshot(root);
    let mut snap = initial.clone();
    let mut served = 0;
    let mut stored = 0;
    let mut accepted_any = false;
    let mut stray = 0;
    // the sockets of a batch stay open until its end, so that no later request inherits the port (and the late datagrams) of an earlier one
    let mut keep_alive: Vec<Client> = vec![];
    let check_fs = |now: &BTreeMap<String, Entry>, accepted_any: bool, what: &str| -> Result<(), (String, String)> {
        for (rel, before, after) in wire::diff(&initial, now) {
            if rel.starts_with("c03logs") {
                continue;
            }
            if !under(&rel, recv_rel) || rel == recv_rel {
                return Err(("write-outside".into(), format!("{}: {} changed ({:?} -> {:?}), which is outside the receive directory {}", what, rel, before, after, recv_rel)));
            }
            if !accepted_any {
                return Err(("refused-but-effect".into(), format!("{}: {} changed ({:?} -> {:?}) although no write request has been accepted so far", what, rel, before, after)));
            }
        }
        Ok(())
    };
    for (i, rq) in c.reqs.iter().enumerate() {
        let name = placeholder(&rq.name, root);
        let cl = Client::new();
        let pkt = refcodec::encode_request_raw(rq.write, name.as_bytes(), b"octet", &[]);
        if pkt.len() > 65000 {
            continue;
        }
        cl.send(&pkt, srv.addr);
        let reply = cl.recv(Duration::from_millis(40));
        match reply.as_ref().map(|(b, from)| (refcodec::decode(b), *from)) {
            None => {
                // no answer within the wait: a write request may still have been accepted (the ACK 0 is merely late on a
                // loaded machine) - only an explicit ERROR counts as a refusal
                if rq.write {
                    accepted_any = true;
                }
            }
            Some((RDec::Ok(RPacket::Error { .. }), _)) => {}
            Some((RDec::Ok(RPacket::Data { block: 1, data }), from)) if !rq.write => {
                // must be the content of a regular file inside the send directory
                let ok = snap.iter().any(|(rel, e)| under(rel, send_rel) && matches!(e, Entry::File { len, hash } if *len as usize == data.len() && *hash == wire::fnv(&data)));
                cl.send(&refcodec::ack(1), from);
                if !ok {
                    // the file may have been stored by an earlier upload of this batch a moment ago: look again
                    let again = wire::snapshot(root);
                    let ok2 = again.iter().any(|(rel, e)| under(rel, send_rel) && matches!(e, Entry::File { len, hash } if *len as usize == data.len() && *hash == wire::fnv(&data)));
                    if !ok2 {
                        return Err(("read-outside".into(), format!("RRQ {:?} (request #{}) was served {} bytes {:?} which is not the content of any file inside the send directory {}", name, i, data.len(), String::from_utf8_lossy(&data[..data.len().min(40)]), send_rel)));
                    }
                }
                served += 1;
            }
            Some((RDec::Ok(RPacket::Ack(0)), from)) if rq.write => {
                accepted_any = true;
                let body = format!("upload-{}-{}", i, name.len());
                // connected socket: if the transfer port is already closed (the worker could not create the file) the wait ends at once
                let _ = cl.sock.connect(from);
                let _ = cl.sock.send(&refcodec::data(1, body.as_bytes()));
                let _ = cl.sock.set_read_timeout(Some(Duration::from_millis(60)));
                let mut buf = [0u8; 600];
                if cl.sock.recv(&mut buf).is_ok() {
                    stored += 1;
                }
            }
            Some((_other, _)) => {
                // a datagram that answers neither kind of request (a late retransmission of an earlier transfer): not a confinement matter
                stray += 1;
            }
        }
        // filesystem effects so far
        let now = wire::snapshot(root);
        check_fs(&now, accepted_any, &format!("after request #{} ({} {:?})", i, if rq.write { "WRQ" } else { "RRQ" }, name))?;
        snap = now;
        keep_alive.push(cl);
        if let Some(st) = srv.exit_status() {
            return Err(("server-terminated".into(), format!("tftpd exited ({}) after request #{} {:?}; stderr: {}", st, i, name, srv.stderr_tail())));
        }
    }
    if served > 0 {
        classes.push("served-a-file");
    }
    if stray > 0 {
        classes.push("stray-reply-ignored");
    }
    drop(keep_alive);
    if stored > 0 {
        classes.push("stored-a-file");
    }
    // effects that show up late (a worker that acts after the reply)
    std::thread::sleep(Duration::from_millis(30));
    let fin = wire::snapshot(root);
    check_fs(&fin, accepted_any, "after the batch")?;
    let _ = &snap;
    drop(srv);
    let _ = std::fs::remove_dir_all(root);
    let _ = std::fs::remove_dir_all(&logdir);
    Ok(classes)
}

fn interesting(name: &str) -> bool {
    name.contains("..") || name.starts_with('/') || name.starts_with('\\') || name.contains('\\') || name.contains("srv-evil") || name.contains("srvx") || name.contains("rcv-evil")
}

pub fn judge(dir: &Path, c: &Case, obs: &mut Obs) -> Judge {
    obs.class(if c.distinct { "distinct-dirs" } else { "shared-dir" });
    obs.class(if c.relative_dirs { "relative-dir-args" } else { "absolute-dir-args" });
    obs.class_if(c.overwrite, "overwrite");
    obs.class_if(c.single, "single-port");
    obs.class_if(c.reqs.iter().any(|r| r.name.contains("..")), "dotdot");
    obs.class_if(c.reqs.iter().any(|r| r.name.starts_with('/') || r.name.starts_with('\\')), "leading-separator");
    obs.class_if(c.reqs.iter().any(|r| r.name.contains('\\')), "backslash");
    obs.class_if(c.reqs.iter().any(|r| r.name.contains("@ROOT")), "absolute-path");
    obs.class_if(c.reqs.iter().any(|r| r.name.contains("-evil") || r.name.contains("srvx")), "prefix-sharing-sibling");
    obs.nontrivial = c.reqs.iter().any(|r| interesting(&r.name));
    match run_case(dir, c) {
        Ok(cls) => {
            for k in cls {
                obs.class(k);
            }
            Ok(())
        }
        Err((sig, d)) if sig == "harness" => {
            obs.inconclusive = Some(d);
            Ok(())
        }
        Err((sig, d)) => viol!(sig, "{} | distinct={} relative={} overwrite={} single={}", d, c.distinct, c.relative_dirs, c.overwrite, c.single),
    }
}

const SEGS: [&str; 12] = ["..", ".", "", "a.txt", "sub", "b.txt", "srv-evil", "outside.txt", "~", "@ROOT", "C:", "e.txt"];

/// all names of up to `l` segments over SEGS, joined by the separators, with optional leading separators
fn exhaustive_names(l: usize) -> Vec<String> {
    let seps2 = ["/", "\\", "//", "\\/"];
    let seps3 = [("/", "/"), ("\\", "\\"), ("/", "\\"), ("\\", "/")];
    let mut core: Vec<String> = vec![];
    for a in SEGS {
        core.push(a.to_string());
    }
    for a in SEGS {
        for b in SEGS {
            for s in seps2 {
                core.push(format!("{}{}{}", a, s, b));
            }
        }
    }
    let segs3: Vec<&str> = if l >= 4 { SEGS.to_vec() } else { vec!["..", ".", "sub", "a.txt", "srv-evil", "@ROOT", "outside.txt"] };
    if l >= 3 {
        for a in segs3.iter() {
            for b in segs3.iter() {
                for c in segs3.iter() {
                    for (s1, s2) in seps3 {
                        core.push(format!("{}{}{}{}{}", a, s1, b, s2, c));
                    }
                }
            }
        }
    }
    if l >= 4 {
        let small = ["..", "sub", "a.txt", "srv-evil", "@ROOT", "."];
        for a in small {
            for b in small {
                for c in small {
                    for d in small {
                        for s in ["/", "\\"] {
                            core.push([a, b, c, d].join(s));
                        }
                    }
                }
            }
        }
    }
    let mut out = vec![];
    for n in core {
        for lead in ["", "/", "\\", "//", "\\\\", "/\\"] {
            out.push(format!("{}{}", lead, n));
        }
    }
    // targeted extras: sibling directories sharing a prefix, absolute paths into them
    for extra in ["../srv-evil/e.txt", "..\\srv-evil\\e.txt", "@ROOT/srv-evil/e.txt", "@ROOT/srv/a.txt", "@ROOT/outside.txt", "../srvx/x.txt", "sub/../../outside.txt", "sub/..", "sub/../a.txt", "./../outside.txt", "..", "../", "..\\", "../rcv-evil/new.txt", "../cwd/c.txt", "....//outside.txt", "..././outside.txt", "%2e%2e/outside.txt", "..%2foutside.txt", "a.txt/../../outside.txt", "a.txt/.", "sub/", "sub//b.txt", "sub\\b.txt", "sub\\..\\..\\outside.txt"] {
        out.push(extra.to_string());
    }
    out.sort();
    out.dedup();
    out
}

fn exhaustive_cases(l: usize, batch: usize) -> Vec<Case> {
    let names = exhaustive_names(l);
    let mut out = vec![];
    for distinct in [false, true] {
        for overwrite in [false, true] {
            {
                for (k, chunk) in names.chunks(batch).enumerate() {
                    let relative_dirs = k % 2 == 0;
                    let mut reqs = vec![];
                    for n in chunk {
                        reqs.push(Req { write: false, name: n.clone() });
                        reqs.push(Req { write: true, name: n.clone() });
                    }
                    out.push(Case {
                        distinct,
                        relative_dirs,
                        overwrite,
                        single: k % 4 == 3,
                        reqs,
                    });
                }
            }
        }
    }
    out
}

fn name_strategy() -> BoxedStrategy<String> {
    let seg = prop_oneof![
        6 => prop::sample::select(SEGS.to_vec()).prop_map(|s| s.to_string()),
        1 => prop::sample::select(vec!["srvx", "x.txt", "rcv", "rcv-evil", "cwd", "c.txt", "r.txt", "...", ". .", "..\u{0}", "\u{2025}", "%2e%2e", "new.txt", "srv"]).prop_map(|s| s.to_string()),
        1 => "[a-zA-Z0-9._ -]{1,12}",
        1 => proptest::collection::vec(any::<char>().prop_filter("no NUL", |c| *c != '\0'), 1..6).prop_map(|v| v.into_iter().collect::<String>()),
    ];
    let sep = prop::sample::select(vec!["/", "\\", "//", "\\\\", "/./", "/\\"]);
    prop_oneof![
        8 => (prop::sample::select(vec!["", "/", "\\", "//", "\\\\/"]), proptest::collection::vec((seg.clone(), sep.clone()), 1..7)).prop_map(|(lead, parts)| {
            let mut s = lead.to_string();
            for (i, (seg, sep)) in parts.iter().enumerate() {
                if i > 0 {
                    s.push_str(sep);
                }
                s.push_str(&seg.replace('\0', ""));
            }
            s
        }),
        1 => (seg.clone(), 100usize..480).prop_map(|(s, n)| format!("{}/{}", "../".repeat(n / 3), s.replace('\0', ""))),
        1 => (1usize..490).prop_map(|n| "a".repeat(n)),
    ]
    .boxed()
}

pub fn strategy() -> BoxedStrategy<Case> {
    (any::<bool>(), any::<bool>(), any::<bool>(), any::<bool>(), proptest::collection::vec((any::<bool>(), name_strategy()).prop_map(|(write, name)| Req { write, name }), 1..30))
        .prop_map(|(distinct, relative_dirs, overwrite, single, reqs)| Case {
            distinct,
            relative_dirs,
            overwrite,
            single,
            reqs,
        })
        .boxed()
}

pub fn run(ctx: &Ctx) {
    ctx.set_rule("the real tftpd serves a sandbox tree root/{srv, srv-evil, srvx, rcv, rcv-evil, outside.txt, a.txt, cwd} in which every file has unique content; configurations {shared -d, distinct -sd/-rd} x {absolute, relative directory arguments} x {overwrite on/off} x {single, multi port}. Filenames: exhaustive joins of <=L segments (quick 3, thorough 4) from {.., ., empty, existing file, existing subdirectory, sibling directory name, outside file, ~, absolute path of the sandbox root, C:} with separators {/, \\, //, \\/} and 6 kinds of leading separators, plus targeted traversal spellings, plus random names up to 480 bytes (Unicode, very long ../ chains). Every name is sent as RRQ and as WRQ; accepted requests are completed with one short block. Oracle: an RRQ is answered by ERROR/silence or by DATA equal to the content of a regular file inside the send directory; a recursive snapshot (paths, types, sizes, content hashes) taken after every request may differ from the initial one only by files created or modified inside the receive directory, and not at all as long as every write request of the batch so far was answered with an ERROR. Non-trivial = the batch contains a name with '..', a leading separator, a backslash or a prefix-sharing sibling; distinct = distinct batches. No symlinks in the tree.");
    ctx.assume("Linux path semantics only; symlinks inside the served tree are an operator decision and not generated");
    let dirs = DirPool::new(ctx, "c03");
    let l = ctx.tier.pick(3, 4);
    let cases = exhaustive_cases(l, 60);
    ctx.extra("exhaustive_segments", serde_json::json!(l));
    ctx.extra("exhaustive_names", serde_json::json!(exhaustive_names(l).len()));
    enumerate(ctx, "exh-names", &cases, true, |c, o| dirs.with(|d| judge(d, c, o)));
    explore_n(ctx, "random", ctx.tier.pick(3_000, 60_000), shards(), 48, strategy, |c: &Case, o| dirs.with(|d| judge(d, c, o)));
}

pub fn replay(ctx: &Ctx, part: &str, case: &Value) -> bool {
    let dirs = DirPool::new(ctx, "c03");
    replay_one(ctx, part, case, |c: &Case, o| dirs.with(|d| judge(d, c, o)))
}

#[allow(dead_code)]
fn unused(_: BTreeMap<String, Entry>) {}
