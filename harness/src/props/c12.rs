//! C12 Concurrent transfers are isolated; datagrams are demultiplexed by endpoint (wire).

use crate::common::*;
use crate::refcodec::{self, RDec, ROpt, RPacket};
use crate::viol;
use crate::wclient;
use crate::wire::{self, Client, Server, StartError};
use proptest::prelude::*;
use serde::{Deserialize, Serialize};
use serde_json::Value;
use std::net::SocketAddr;
use std::path::Path;
use std::time::{Duration, Instant};

#[derive(Clone, Debug, Serialize, Deserialize)]
pub struct Spec {
    pub write: bool,
    pub blk: Option<u32>,
    pub ws: Option<u16>,
    pub len: usize,
}

#[derive(Clone, Debug, Serialize, Deserialize)]
pub enum IKind {
    Ack(u16),
    Data(u16),
    Error(u16),
    Oack,
    /// a DATA datagram with a payload of this many bytes (larger than the listener's default buffer)
    BigData(u16),
}

#[derive(Clone, Debug, Serialize, Deserialize)]
pub enum Act {
    /// client i takes its next step (request / one window)
    Step(u8),
    /// a foreign endpoint sends a non-request packet to the listening port
    IntrudeListen(IKind),
    /// a foreign endpoint sends a packet to the transfer endpoint of client i (multi-port: its ephemeral port)
    IntrudeTransfer(u8, IKind),
    /// client i, once finished, sends a stray packet to the listening port from its old endpoint
    StrayFromFinished(u8, IKind),
    /// client i, once finished, starts another transfer (a fresh download of its neighbour's kind) from the same endpoint
    Restart(u8),
    /// client i, once finished, sends a late datagram (a duplicate of its last ACK, a stray DATA or ERROR) to the endpoint
    /// that served its transfer (multi-port: the worker's former ephemeral port); whoever is served next must not see it
    LateToOldEndpoint(u8, IKind),
}

#[derive(Clone, Debug, Serialize, Deserialize)]
pub struct Case {
    pub single: bool,
    pub specs: Vec<Spec>,
    pub acts: Vec<Act>,
    pub seed: u64,
}

struct Cl {
    sock: Client,
    spec: Spec,
    name: String,
    data: Vec<u8>, // file content (download: expected, upload: to send)
    started: bool,
    done: bool,
    peer: Option<SocketAddr>,
    blk: usize,
    ws: usize,
    next: usize, // next block expected / to send
    got: Vec<u8>,
    pending_first: Option<(u16, Vec<u8>)>,
    sources: Vec<SocketAddr>,
    started_at: usize,
    finished_at: usize,
    restarts: usize,
}

fn ikind_bytes(k: &IKind) -> Vec<u8> {
    match k {
        IKind::Ack(n) => refcodec::ack(*n),
        IKind::Data(n) => refcodec::data(*n, b"intruder-data"),
        IKind::Error(c) => refcodec::error(*c % 8, "intruder"),
        IKind::Oack => vec![0, 6, b'b', b'l', b'k', b's', b'i', b'z', b'e', 0, b'8', 0],
        IKind::BigData(n) => refcodec::data(7, &vec![0x49u8; 513 + (*n as usize % 900)]),
    }
}

fn step(c: &mut Cl, srv_addr: SocketAddr, tick: usize) -> Result<(), String> {
    if c.done {
        return Ok(());
    }
    if !c.started {
        c.started = true;
        c.started_at = tick;
        let mut opts = vec![];
        if let Some(b) = c.spec.blk {
            opts.push(("blksize".to_string(), b.to_string()));
        }
        if let Some(w) = c.spec.ws {
            opts.push(("windowsize".to_string(), w.to_string()));
        }
        match wclient::start(&c.sock, srv_addr, c.spec.write, &c.name, &opts, Duration::from_secs(3)) {
            wclient::Start::Accepted { neg, first_data } => {
                c.peer = Some(neg.peer);
                c.blk = neg.blk;
                c.ws = neg.ws;
                c.pending_first = first_data;
                c.sources.push(neg.peer);
                Ok(())
            }
            other => Err(format!("request for {} not accepted: {:?}", c.name, other)),
        }
    } else if c.spec.write {
        // send one window, wait for its ACK
        let n_blocks = c.data.len() / c.blk + 1;
        let count = c.ws.min(n_blocks + 1 - c.next);
        let send_window = |c: &Cl| {
            for i in 0..count {
                let abs = c.next + i;
                let s = (abs - 1) * c.blk;
                let e = (s + c.blk).min(c.data.len());
                c.sock.send(&refcodec::data((abs % 65536) as u16, &c.data[s..e]), c.peer.unwrap());
            }
        };
        send_window(c);
        let last = c.next + count - 1;
        let mut tries = 0;
        loop {
            match c.sock.recv(Duration::from_millis(1500)) {
                Some((b, from)) => match refcodec::decode(&b) {
                    RDec::Ok(RPacket::Ack(k)) if k == (last % 65536) as u16 => {
                        c.sources.push(from);
                        break;
                    }
                    RDec::Ok(RPacket::Ack(_)) => continue,
                    other => return Err(format!("upload {}: after blocks {}..{} got {:?} from {}", c.name, c.next, last, other, from)),
                },
                None => {
                    tries += 1;
                    if tries > 2 {
                        return Err(format!("upload {}: no ACK {} (blocks {}..{}, blksize {}, windowsize {})", c.name, last, c.next, last, c.blk, c.ws));
                    }
                    send_window(c);
                }
            }
        }
        c.next += count;
        if c.next > n_blocks {
            c.done = true;
            c.finished_at = tick;
        }
        Ok(())
    } else {
        // receive one window, acknowledge it
        let mut count = 0;
        let deadline = Instant::now() + Duration::from_secs(8);
        loop {
            let (block, data, from) = if let Some((b, d)) = c.pending_first.take() {
                (b, d, c.peer.unwrap())
            } else {
                match c.sock.recv(Duration::from_millis(1500)) {
                    Some((b, from)) => match refcodec::decode(&b) {
                        RDec::Ok(RPacket::Data { block, data }) => (block, data, from),
                        other => return Err(format!("download {}: got {:?} from {}", c.name, other, from)),
                    },
                    None => {
                        if Instant::now() > deadline {
                            return Err(format!("download {}: stalled at block {} (blksize {}, windowsize {})", c.name, c.next, c.blk, c.ws));
                        }
                        c.sock.send(&refcodec::ack(((c.next - 1) % 65536) as u16), c.peer.unwrap());
                        count = 0;
                        continue;
                    }
                }
            };
            c.sources.push(from);
            if block != (c.next % 65536) as u16 {
                continue;
            }
            if data.len() > c.blk {
                return Err(format!("download {}: DATA {} has {} bytes, negotiated blksize {}", c.name, block, data.len(), c.blk));
            }
            c.got.extend_from_slice(&data);
            c.next += 1;
            count += 1;
            if data.len() < c.blk {
                c.sock.send(&refcodec::ack(block), c.peer.unwrap());
                c.done = true;
                c.finished_at = tick;
                return Ok(());
            }
            if count == c.ws {
                c.sock.send(&refcodec::ack(block), c.peer.unwrap());
                return Ok(());
            }
        }
    }
}

fn run_case(dir: &Path, c: &Case) -> Result<Vec<&'static str>, (String, String)> {
    let root = dir.join("c12");
    let _ = std::fs::remove_dir_all(&root);
    let send = root.join("send");
    let recv = root.join("recv");
    std::fs::create_dir_all(&send).unwrap();
    std::fs::create_dir_all(&recv).unwrap();
    let mut cls: Vec<Cl> = vec![];
    for (i, sp) in c.specs.iter().enumerate() {
        let data = content(c.seed ^ (i as u64 * 7919 + 13), sp.len);
        let name = if sp.write { format!("u{}.bin", i) } else { format!("d{}.bin", i) };
        if !sp.write {
            std::fs::write(send.join(&name), &data).unwrap();
        }
        cls.push(Cl {
            sock: Client::new(),
            spec: sp.clone(),
            name,
            data,
            started: false,
            done: false,
            peer: None,
            blk: 512,
            ws: 1,
            next: 1,
            got: vec![],
            pending_first: None,
            sources: vec![],
            started_at: 0,
            finished_at: usize::MAX,
            restarts: 0,
        });
    }
    let mut args = vec![wire::s("-sd"), send.to_string_lossy().to_string(), wire::s("-rd"), recv.to_string_lossy().to_string()];
    if c.single {
        args.push(wire::s("-s"));
    }
    let logdir = dir.join("c12logs");
    std::fs::create_dir_all(&logdir).unwrap();
    let mut srv = match Server::start(&args, &logdir) {
        Ok(s) => s,
        Err(StartError::Exited(code, e)) => return Err(("harness".into(), format!("tftpd exited at start-up with {}: {}", code, e))),
        Err(StartError::Harness(e)) => return Err(("harness".into(), e)),
    };
    let mut classes = vec![];
    let intruder = Client::new();
    let mut intr_expect_error = 0usize;
    let mut intr_got_error = 0usize;
    let mut tick = 0usize;
    let k = cls.len();
    let check_intruder_inbox = |intruder: &Client, cls: &Vec<Cl>, wait: Duration| -> Result<usize, (String, String)> {
        let mut errors = 0;
        for (b, from) in intruder.drain(wait) {
            match refcodec::decode(&b) {
                RDec::Ok(RPacket::Error { .. }) => errors += 1,
                RDec::Ok(RPacket::Data { data, .. }) => {
                    // leak check: an intruder must never receive a victim's file data
                    if cls.iter().any(|v| !v.spec.write && !data.is_empty() && v.data.windows(data.len().max(1)).any(|w| w == &data[..])) {
                        return Err(("data-leak".into(), format!("a foreign endpoint received DATA with {} bytes of a victim's file from {}", data.len(), from)));
                    }
                }
                _ => {}
            }
        }
        Ok(errors)
    };
    let mut acts: Vec<Act> = c.acts.clone();
    // finish everybody after the generated schedule
    for round in 0..2000 {
        let _ = round;
        for i in 0..k {
            acts.push(Act::Step(i as u8));
        }
        if acts.len() > 4000 {
            break;
        }
    }
    for act in acts {
        tick += 1;
        match act {
            Act::Step(i) => {
                let idx = i as usize % k;
                if cls.iter().all(|c| c.done) {
                    break;
                }
                if let Err(e) = step(&mut cls[idx], srv.addr, tick) {
                    return Err(("transfer-disturbed".into(), format!("client {} ({:?}): {}", idx, cls[idx].spec, e)));
                }
            }
            Act::IntrudeListen(kind) => {
                intruder.send(&ikind_bytes(&kind), srv.addr);
                intr_expect_error += 1;
                classes.push("intruder-to-listening-port");
                // collect the reply right away (the listener answers in arrival order)
                if let Some((b, _)) = intruder.recv(Duration::from_millis(800)) {
                    if let RDec::Ok(RPacket::Error { .. }) = refcodec::decode(&b) {
                        intr_got_error += 1;
                    } else if let RDec::Ok(RPacket::Data { data, .. }) = refcodec::decode(&b) {
                        if cls.iter().any(|v| !v.spec.write && data.len() >= 8 && v.data.windows(data.len()).any(|w| w == &data[..])) {
                            return Err(("data-leak".into(), format!("the intruder received {} bytes of a victim's file", data.len())));
                        }
                    }
                }
            }
            Act::IntrudeTransfer(i, kind) => {
                let idx = i as usize % k;
                if let Some(p) = cls[idx].peer {
                    if !cls[idx].done {
                        intruder.send(&ikind_bytes(&kind), p);
                        if c.single {
                            // the transfer endpoint is the listening port: a foreign source must get an ERROR
                            intr_expect_error += 1;
                            if let Some((b, _)) = intruder.recv(Duration::from_millis(800)) {
                                if let RDec::Ok(RPacket::Error { .. }) = refcodec::decode(&b) {
                                    intr_got_error += 1;
                                }
                            }
                        }
                        classes.push("intruder-to-transfer-endpoint");
                    }
                }
            }
            Act::Restart(i) => {
                let idx = i as usize % k;
                if cls[idx].done && cls[idx].restarts < 2 {
                    // same socket, same source port: a second transfer of the same kind with fresh content
                    let n = cls[idx].restarts + 1;
                    let data = content(c.seed ^ (idx as u64 * 131 + n as u64 * 7), cls[idx].spec.len + 300 * n);
                    let name = format!("{}r{}.bin", if cls[idx].spec.write { "u" } else { "d" }, idx * 10 + n);
                    if !cls[idx].spec.write {
                        std::fs::write(send.join(&name), &data).unwrap();
                    } else {
                        // the previous upload of this endpoint is verified now, before the state is reused
                        let stored = std::fs::read(recv.join(&cls[idx].name)).unwrap_or_default();
                        if stored != cls[idx].data {
                            return Err(("upload-content".into(), format!("client {} uploaded {} bytes, stored {}", idx, cls[idx].data.len(), stored.len())));
                        }
                    }
                    let _ = cls[idx].sock.drain(Duration::from_millis(1));
                    let c0 = &mut cls[idx];
                    if !c0.spec.write && c0.got != c0.data {
                        return Err(("download-content".into(), format!("client {} received {} bytes that differ from its file", idx, c0.got.len())));
                    }
                    c0.name = name;
                    c0.data = data;
                    c0.started = false;
                    c0.done = false;
                    c0.next = 1;
                    c0.got.clear();
                    c0.sources.clear();
                    c0.peer = None;
                    c0.finished_at = usize::MAX;
                    c0.restarts = n;
                    classes.push("second-transfer-from-same-endpoint");
                }
            }
            Act::LateToOldEndpoint(i, kind) => {
                let idx = i as usize % k;
                if cls[idx].done && !c.single {
                    if let Some(p) = cls[idx].peer {
                        std::thread::sleep(Duration::from_millis(5));
                        cls[idx].sock.send(&ikind_bytes(&kind), p);
                        // a duplicate of the final acknowledgement as well
                        let last = ((cls[idx].next.max(1) - 1) % 65536) as u16;
                        cls[idx].sock.send(&refcodec::ack(last), p);
                        classes.push("late-datagram-to-former-transfer-endpoint");
                    }
                }
            }
            Act::StrayFromFinished(i, kind) => {
                let idx = i as usize % k;
                if cls[idx].done && cls.iter().any(|c| !c.done) {
                    // give the finished worker a moment to leave
                    std::thread::sleep(Duration::from_millis(30));
                    cls[idx].sock.send(&ikind_bytes(&kind), srv.addr);
                    classes.push("stray-from-finished-endpoint");
                    match cls[idx].sock.recv(Duration::from_millis(3000)).map(|(b, f)| (refcodec::decode(&b), f)) {
                        Some((RDec::Ok(RPacket::Error { .. }), f)) if f.port() == srv.port => {}
                        other => return Err(("no-error-for-stray".into(), format!("client {} finished its transfer and then sent {:?} to the listening port; expected an ERROR from the listening port, got {:?}", idx, kind, other.map(|(d, f)| format!("{:?} from {}", d, f))))),
                    }
                }
            }
        }
    }
    intr_got_error += check_intruder_inbox(&intruder, &cls, Duration::from_millis(80))?;
    // a loaded machine: give outstanding ERROR replies a few seconds before concluding that they never come
    let t_wait = Instant::now();
    while intr_got_error < intr_expect_error && t_wait.elapsed() < Duration::from_secs(4) {
        intr_got_error += check_intruder_inbox(&intruder, &cls, Duration::from_millis(300))?;
    }
    if intr_got_error < intr_expect_error {
        return Err(("intruder-not-answered".into(), format!("{} well-formed non-request datagrams were sent to the listening port by an endpoint that owns no transfer, only {} were answered with an ERROR", intr_expect_error, intr_got_error)));
    }
    // per-client results
    for (i, cl) in cls.iter().enumerate() {
        if !cl.done {
            return Err(("transfer-disturbed".into(), format!("client {} did not finish", i)));
        }
        if cl.spec.write {
            let stored = std::fs::read(recv.join(&cl.name)).unwrap_or_default();
            if stored != cl.data {
                return Err(("upload-content".into(), format!("client {} uploaded {} bytes (blksize {}, windowsize {}), the stored file has {} bytes{}", i, cl.data.len(), cl.blk, cl.ws, stored.len(), if stored.len() <= cl.data.len() && stored == cl.data[..stored.len()] { " (a prefix)" } else { "" })));
            }
        } else if cl.got != cl.data {
            return Err(("download-content".into(), format!("client {} received {} bytes that differ from its file ({} bytes)", i, cl.got.len(), cl.data.len())));
        }
        for s in &cl.sources {
            if c.single && s.port() != srv.port {
                return Err(("source-port".into(), format!("single-port mode: client {} received a datagram from port {} (listening port {})", i, s.port(), srv.port)));
            }
            if !c.single && (s.port() == srv.port || Some(*s) != cl.peer) {
                return Err(("source-port".into(), format!("multi-port mode: client {} received datagrams from {} and {} (listening port {})", i, s, cl.peer.unwrap(), srv.port)));
            }
        }
    }
    if !c.single {
        for i in 0..k {
            for j in (i + 1)..k {
                let overlap = cls[i].started_at < cls[j].finished_at && cls[j].started_at < cls[i].finished_at;
                if overlap && cls[i].peer == cls[j].peer {
                    return Err(("shared-transfer-port".into(), format!("clients {} and {} were served from the same port {:?} at the same time", i, j, cls[i].peer)));
                }
            }
        }
    }
    let overlapped = (0..k).any(|i| (0..k).any(|j| i != j && cls[i].started_at < cls[j].finished_at && cls[j].started_at < cls[i].finished_at));
    if overlapped {
        classes.push("overlapping-transfers");
    }
    if let Some(st) = srv.exit_status() {
        return Err(("server-terminated".into(), format!("tftpd exited ({}); stderr {}", st, srv.stderr_tail())));
    }
    drop(srv);
    let _ = std::fs::remove_dir_all(&root);
    let _ = std::fs::remove_dir_all(&logdir);
    Ok(classes)
}

pub fn judge(dir: &Path, c: &Case, obs: &mut Obs) -> Judge {
    obs.class(if c.single { "single-port" } else { "multi-port" });
    obs.class_if(c.specs.iter().any(|s| s.write) && c.specs.iter().any(|s| !s.write), "mixed-up-and-download");
    obs.class_if(c.specs.len() >= 4, "four-or-more-clients");
    let r = match run_case(dir, c) {
        Err((sig, d)) if sig != "harness" => match run_case(dir, c) {
            Ok(k) => {
                obs.inconclusive = Some(format!("failed once ({}: {}), passed on the isolated re-run", sig, d));
                Ok(k)
            }
            other => other,
        },
        other => other,
    };
    match r {
        Ok(classes) => {
            obs.nontrivial = classes.contains(&"overlapping-transfers") || classes.iter().any(|k| k.starts_with("intruder") || k.starts_with("stray"));
            for k in classes {
                obs.class(k);
            }
            Ok(())
        }
        Err((sig, d)) if sig == "harness" => {
            obs.inconclusive = Some(d);
            Ok(())
        }
        Err((sig, d)) => viol!(sig, "{} | single={} clients={:?}", d, c.single, c.specs),
    }
}

fn ikind() -> BoxedStrategy<IKind> {
    prop_oneof![any::<u16>().prop_map(IKind::BigData), any::<u16>().prop_map(IKind::Ack), (0u16..4).prop_map(IKind::Ack), (0u16..4).prop_map(IKind::Data), (0u16..8).prop_map(IKind::Error), Just(IKind::Oack)].boxed()
}

fn spec() -> BoxedStrategy<Spec> {
    (any::<bool>(), prop_oneof![3 => Just(None), 1 => Just(Some(8u32)), 1 => Just(Some(100u32)), 2 => Just(Some(1024u32)), 1 => Just(Some(1428u32)), 1 => Just(Some(4096u32)), 1 => Just(Some(8192u32)), 1 => Just(Some(16384u32))], prop_oneof![2 => Just(None), 1 => (1u16..5).prop_map(Some)], 0usize..5, 0usize..600)
        .prop_map(|(write, blk, ws, blocks, rem)| {
            let b = blk.unwrap_or(512) as usize;
            let blocks = if b <= 8 { blocks * 3 } else if b >= 8192 { blocks.min(3) } else { blocks };
            Spec { write, blk, ws, len: blocks * b + rem % b }
        })
        .boxed()
}

pub fn strategy() -> BoxedStrategy<Case> {
    (any::<bool>(), prop_oneof![4 => 2usize..=4, 1 => 5usize..=16], any::<u64>())
        .prop_flat_map(|(single, k, seed)| {
            let act = prop_oneof![
                12 => (0u8..k as u8).prop_map(Act::Step),
                2 => ikind().prop_map(Act::IntrudeListen),
                2 => ((0u8..k as u8), ikind()).prop_map(|(i, kd)| Act::IntrudeTransfer(i, kd)),
                2 => ((0u8..k as u8), ikind()).prop_map(|(i, kd)| Act::StrayFromFinished(i, kd)),
                2 => (0u8..k as u8).prop_map(Act::Restart),
                2 => ((0u8..k as u8), ikind()).prop_map(|(i, kd)| Act::LateToOldEndpoint(i, kd)),
            ];
            (Just(single), proptest::collection::vec(spec(), k), proptest::collection::vec(act, 0..(6 * k)), Just(seed))
        })
        .prop_map(|(single, specs, acts, seed)| Case { single, specs, acts, seed })
        .boxed()
}


/// One slow but conformant transfer that outlives several times its retransmission interval while other
/// clients come and go on the same server.
#[derive(Clone, Debug, Serialize, Deserialize)]
pub struct LongCase {
    pub single: bool,
    pub write: bool,
    /// requested timeout option in seconds (0 = none requested: the server's default applies)
    pub timeout: u8,
    /// the slow client answers every block after this many milliseconds (well below the timeout)
    pub pace_ms: u64,
    pub blocks: usize,
    pub seed: u64,
}

fn short_transfer(srv_addr: SocketAddr, send: &Path, recv: &Path, i: usize, seed: u64) -> Result<(), String> {
    let cl = Client::new();
    let write = i % 2 == 1;
    let data = content(seed ^ (i as u64 * 977 + 5), 300 + (i * 131) % 900);
    let name = format!("{}{}.bin", if write { "su" } else { "sd" }, i);
    if !write {
        std::fs::write(send.join(&name), &data).map_err(|e| e.to_string())?;
    }
    let opts: Vec<(String, String)> = if i % 3 == 0 { vec![("blksize".to_string(), "1024".to_string())] } else { vec![] };
    match wclient::start(&cl, srv_addr, write, &name, &opts, Duration::from_secs(4)) {
        wclient::Start::Accepted { neg, first_data } => {
            let mut src = vec![];
            if write {
                wclient::upload(&cl, &neg, &data, None, &mut src).map_err(|e| format!("short upload {}: {}", name, e))?;
                let t0 = Instant::now();
                loop {
                    if std::fs::read(recv.join(&name)).map(|b| b == data).unwrap_or(false) {
                        break;
                    }
                    if t0.elapsed() > Duration::from_secs(3) {
                        return Err(format!("short upload {} is not stored byte-identically", name));
                    }
                    std::thread::sleep(Duration::from_millis(5));
                }
            } else {
                let got = wclient::download(&cl, &neg, first_data, &mut src).map_err(|e| format!("short download {}: {}", name, e))?;
                if got != data {
                    return Err(format!("short download {} delivered {} bytes that differ from the file", name, got.len()));
                }
            }
            Ok(())
        }
        other => Err(format!("short transfer {} not accepted: {:?}", name, other)),
    }
}

fn run_long(dir: &Path, c: &LongCase) -> Result<Vec<&'static str>, (String, String)> {
    let root = dir.join("c12long");
    let _ = std::fs::remove_dir_all(&root);
    let send = root.join("send");
    let recv = root.join("recv");
    std::fs::create_dir_all(&send).unwrap();
    std::fs::create_dir_all(&recv).unwrap();
    let blk = 512usize;
    let data = content(c.seed, c.blocks * blk - 100);
    let n_blocks = data.len() / blk + 1;
    if !c.write {
        std::fs::write(send.join("slow.bin"), &data).unwrap();
    }
    let mut args = vec![wire::s("-sd"), send.to_string_lossy().to_string(), wire::s("-rd"), recv.to_string_lossy().to_string()];
    if c.single {
        args.push(wire::s("-s"));
    }
    let logdir = dir.join("c12longlogs");
    std::fs::create_dir_all(&logdir).unwrap();
    let mut srv = match Server::start(&args, &logdir) {
        Ok(s) => s,
        Err(StartError::Exited(code, e)) => return Err(("harness".into(), format!("tftpd exited at start-up with {}: {}", code, e))),
        Err(StartError::Harness(e)) => return Err(("harness".into(), e)),
    };
    let slow = Client::new();
    let opts: Vec<(String, String)> = if c.timeout > 0 { vec![("timeout".to_string(), c.timeout.to_string())] } else { vec![] };
    let t_start = Instant::now();
    let (neg, mut pending) = match wclient::start(&slow, srv.addr, c.write, "slow.bin", &opts, Duration::from_secs(4)) {
        wclient::Start::Accepted { neg, first_data } => (neg, first_data),
        other => return Err(("transfer-disturbed".into(), format!("slow transfer not accepted: {:?}", other))),
    };
    if neg.blk != blk || neg.ws != 1 {
        return Err(("harness".into(), format!("unexpected negotiation {:?}", (neg.blk, neg.ws))));
    }
    let effective_timeout = if c.timeout > 0 { c.timeout as u64 } else { 5 };
    let mut others_after_six_timeouts = 0usize;
    let mut got: Vec<u8> = vec![];
    let pace = Duration::from_millis(c.pace_ms);
    for k in 1..=n_blocks {
        let t_block = Instant::now();
        let wire_k = (k % 65536) as u16;
        if c.write {
            let s0 = (k - 1) * blk;
            let e0 = (s0 + blk).min(data.len());
            let pkt = refcodec::data(wire_k, &data[s0..e0]);
            let mut tries = 0;
            slow.send(&pkt, neg.peer);
            loop {
                match slow.recv(Duration::from_millis(1500)) {
                    Some((b, from)) => match refcodec::decode(&b) {
                        RDec::Ok(RPacket::Ack(a)) if a == wire_k => break,
                        RDec::Ok(RPacket::Ack(_)) => continue,
                        other => return Err(("long-transfer-disturbed".into(), format!("slow upload, {:.1} s after its start, block {}/{}: got {:?} from {}", t_start.elapsed().as_secs_f64(), k, n_blocks, other, from))),
                    },
                    None => {
                        tries += 1;
                        if tries > 4 {
                            return Err(("long-transfer-disturbed".into(), format!("slow upload, {:.1} s after its start: no ACK for block {}/{}", t_start.elapsed().as_secs_f64(), k, n_blocks)));
                        }
                        slow.send(&pkt, neg.peer);
                    }
                }
            }
        } else {
            let deadline = Instant::now() + Duration::from_secs(10);
            loop {
                let (block, d, from) = if let Some((b, d)) = pending.take() {
                    (b, d, neg.peer)
                } else {
                    match slow.recv(Duration::from_millis(1500)) {
                        Some((b, from)) => match refcodec::decode(&b) {
                            RDec::Ok(RPacket::Data { block, data }) => (block, data, from),
                            other => return Err(("long-transfer-disturbed".into(), format!("slow download, {:.1} s after its start, waiting for block {}/{}: got {:?} from {}", t_start.elapsed().as_secs_f64(), k, n_blocks, other, from))),
                        },
                        None => {
                            if Instant::now() > deadline {
                                return Err(("long-transfer-disturbed".into(), format!("slow download, {:.1} s after its start: block {}/{} never arrived", t_start.elapsed().as_secs_f64(), k, n_blocks)));
                            }
                            slow.send(&refcodec::ack(((k - 1) % 65536) as u16), neg.peer);
                            continue;
                        }
                    }
                };
                let _ = from;
                if block != wire_k {
                    continue; // a retransmission of an earlier block (the harness was slower than the timeout)
                }
                got.extend_from_slice(&d);
                break;
            }
        }
        // somebody else is served in the meantime
        if let Err(e) = short_transfer(srv.addr, &send, &recv, k, c.seed) {
            return Err(("transfer-disturbed".into(), format!("{} ({:.1} s after the slow transfer started)", e, t_start.elapsed().as_secs_f64())));
        }
        if t_start.elapsed() > Duration::from_secs(6 * effective_timeout) {
            others_after_six_timeouts += 1;
        }
        if let Some(rest) = pace.checked_sub(t_block.elapsed()) {
            std::thread::sleep(rest);
        }
        if !c.write {
            slow.send(&refcodec::ack(wire_k), neg.peer);
        }
    }
    if c.write {
        let t0 = Instant::now();
        loop {
            let stored = std::fs::read(recv.join("slow.bin")).unwrap_or_default();
            if stored == data {
                break;
            }
            if t0.elapsed() > Duration::from_secs(3) {
                return Err(("upload-content".into(), format!("the slow upload sent {} bytes, the stored file has {}", data.len(), stored.len())));
            }
            std::thread::sleep(Duration::from_millis(10));
        }
    } else if got != data {
        return Err(("download-content".into(), format!("the slow download received {} bytes that differ from its file ({} bytes)", got.len(), data.len())));
    }
    if let Some(st) = srv.exit_status() {
        return Err(("server-terminated".into(), format!("tftpd exited ({}); stderr {}", st, srv.stderr_tail())));
    }
    drop(srv);
    let _ = std::fs::remove_dir_all(&root);
    let _ = std::fs::remove_dir_all(&logdir);
    let mut classes = vec![];
    if others_after_six_timeouts > 0 {
        classes.push("outlived-six-timeouts-with-other-requests-afterwards");
    }
    Ok(classes)
}

pub fn judge_long(dir: &Path, c: &LongCase, obs: &mut Obs) -> Judge {
    obs.class(if c.single { "single-port" } else { "multi-port" });
    obs.class(if c.write { "slow-upload" } else { "slow-download" });
    obs.class_if(c.timeout == 0, "default-timeout");
    let r = match run_long(dir, c) {
        Err((sig, d)) if sig != "harness" => match run_long(dir, c) {
            Ok(k) => {
                obs.inconclusive = Some(format!("failed once ({}: {}), passed on the isolated re-run", sig, d));
                Ok(k)
            }
            other => other,
        },
        other => other,
    };
    match r {
        Ok(classes) => {
            obs.nontrivial = !classes.is_empty();
            for k in classes {
                obs.class(k);
            }
            Ok(())
        }
        Err((sig, d)) if sig == "harness" => {
            obs.inconclusive = Some(d);
            Ok(())
        }
        Err((sig, d)) => viol!(sig, "{} | {:?}", d, c),
    }
}

fn long_cases(thorough: bool) -> Vec<LongCase> {
    let mut out = vec![];
    for single in [true, false] {
        for write in [false, true] {
            out.push(LongCase { single, write, timeout: 1, pace_ms: 450, blocks: 18, seed: 77 });
            if thorough {
                out.push(LongCase { single, write, timeout: 2, pace_ms: 900, blocks: 16, seed: 78 });
                out.push(LongCase { single, write, timeout: 0, pace_ms: 2000, blocks: 17, seed: 79 });
            }
        }
    }
    out
}

/// K = 2: every interleaving of the two clients' steps for short transfers, both port modes
fn exhaustive() -> Vec<Case> {
    let mut out = vec![];
    let pairs: Vec<(Spec, Spec)> = vec![
        (Spec { write: false, blk: None, ws: None, len: 700 }, Spec { write: false, blk: Some(1024), ws: Some(2), len: 2500 }),
        (Spec { write: true, blk: Some(1024), ws: None, len: 2100 }, Spec { write: false, blk: None, ws: None, len: 600 }),
        (Spec { write: true, blk: Some(1428), ws: Some(2), len: 4000 }, Spec { write: true, blk: Some(8), ws: None, len: 20 }),
        (Spec { write: false, blk: Some(8), ws: Some(3), len: 60 }, Spec { write: true, blk: None, ws: None, len: 1100 }),
    ];
    fn steps_of(s: &Spec) -> usize {
        let b = s.blk.unwrap_or(512) as usize;
        let n = s.len / b + 1;
        let w = s.ws.unwrap_or(1) as usize;
        1 + (n + w - 1) / w
    }
    for single in [false, true] {
        for (a, b) in &pairs {
            let (na, nb) = (steps_of(a).min(4), steps_of(b).min(4));
            // all sequences with na zeros and nb ones
            let total = na + nb;
            for mask in 0u32..(1 << total) {
                if mask.count_ones() as usize != nb {
                    continue;
                }
                let acts: Vec<Act> = (0..total).map(|i| Act::Step(((mask >> i) & 1) as u8)).collect();
                out.push(Case { single, specs: vec![a.clone(), b.clone()], acts, seed: 42 + mask as u64 });
            }
        }
    }
    out
}

pub fn run(ctx: &Ctx) {
    ctx.set_rule("K model clients (K=2..4 mostly, up to 16) with distinct files, mixed uploads/downloads, blksize in {default,8,100,1024,1428,4096}, windowsize 1..4, talk to one real tftpd (single or multi port). The harness is the only sender and is single-threaded, so the generated schedule (which client takes its next step - request or one window - and where foreign datagrams are injected) is the arrival order at the listening socket. Injections: ACK/DATA/ERROR/OACK from a foreign endpoint to the listening port and to a victim's transfer endpoint; stray packets from an endpoint whose transfer has finished - to the listening port and, late, to the former transfer endpoint. Exhaustive: all interleavings of the first 4 steps of 2 clients for 4 transfer pairs x both port modes. Oracle: every client ends with exactly its own bytes / every upload is stored exactly; single-port: every server datagram comes from the listening port; multi-port: each transfer from its own port, different from the listening port and from concurrent transfers; every well-formed non-request datagram sent to the listening port by an endpoint that owns no (or no longer a) transfer is answered with an ERROR; a foreign endpoint never receives a victim's file data. Part long-lived-transfer: one slow but conformant lock-step transfer (download or upload, both port modes; requested timeout 1 s answered after 450 ms per block, thorough also 2 s / 900 ms and the default timeout / 2 s) that lasts longer than six timeouts while after every block another client completes a short download or upload on the same server; the slow transfer must never see an ERROR or a stall and ends byte-identical, as do all short ones. Non-trivial = >=2 transfers overlapped in time or >=1 foreign/stray datagram was injected; distinct = distinct cases.");
    ctx.assume("interleaving granularity is one request or one window per client step; the gap between bind and connect of a multi-port socket cannot be scheduled from outside");
    let dirs = DirPool::new(ctx, "c12");
    let cases = exhaustive();
    enumerate(ctx, "exh-two-clients", &cases, true, |c, o| dirs.with(|d| judge(d, c, o)));
    explore_n(ctx, "random", ctx.tier.pick(2_500, 50_000), shards(), 32, strategy, |c: &Case, o| dirs.with(|d| judge(d, c, o)));
    let longs = long_cases(ctx.tier.pick(false, true));
    enumerate(ctx, "long-lived-transfer", &longs, true, |c, o| dirs.with(|d| judge_long(d, c, o)));
}

pub fn replay(ctx: &Ctx, part: &str, case: &Value) -> bool {
    let dirs = DirPool::new(ctx, "c12");
    if part == "long-lived-transfer" {
        return replay_one(ctx, part, case, |c: &LongCase, o| dirs.with(|d| judge_long(d, c, o)));
    }
    replay_one(ctx, part, case, |c: &Case, o| dirs.with(|d| judge(d, c, o)))
}

#[allow(dead_code)]
fn unused(_: ROpt) {}
