pub mod c10;
pub mod c11;

use crate::common::Ctx;
use serde_json::Value;

pub fn run(ctx: &Ctx, id: &str) -> bool {
    match id {
        "C10" => c10::run(ctx),
        "C11" => c11::run(ctx),
        _ => return false,
    }
    true
}

pub fn replay(ctx: &Ctx, id: &str, part: &str, case: &Value) -> bool {
    match id {
        "C10" => c10::replay(ctx, part, case),
        "C11" => c11::replay(ctx, part, case),
        _ => {
            ctx.say(&format!("unknown property id {}", id));
            std::process::exit(2)
        }
    }
}
