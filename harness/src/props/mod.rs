pub mod c01;
pub mod c02;
pub mod c03;
pub mod c04;
pub mod c04w;
pub mod c05;
pub mod c06;
pub mod c07;
pub mod c0xw;
pub mod c07w;
pub mod c08;
pub mod c09;
pub mod simcommon;
pub mod c10;
pub mod c11;
pub mod c12;
pub mod c13;
pub mod c13w;
pub mod c14;
pub mod c15;
pub mod c16;
pub mod c16w;
pub mod c17;
pub mod c18;

use crate::common::Ctx;
use serde_json::Value;

pub fn run(ctx: &Ctx, id: &str) -> bool {
    match id {
        "C01" => c01::run(ctx),
        "C02" => c02::run(ctx),
        "C03" => c03::run(ctx),
        "C04" => c04::run(ctx),
        "C05" => c05::run(ctx),
        "C06" => c06::run(ctx),
        "C07" => c07::run(ctx),
        "C08" => c08::run(ctx),
        "C09" => c09::run(ctx),
        "C10" => c10::run(ctx),
        "C11" => c11::run(ctx),
        "C12" => c12::run(ctx),
        "C13" => c13::run(ctx),
        "C14" => c14::run(ctx),
        "C15" => c15::run(ctx),
        "C16" => c16::run(ctx),
        "C17" => c17::run(ctx),
        "C18" => c18::run(ctx),
        _ => return false,
    }
    true
}

pub fn replay(ctx: &Ctx, id: &str, part: &str, case: &Value) -> bool {
    match id {
        "C01" => c01::replay(ctx, part, case),
        "C02" => c02::replay(ctx, part, case),
        "C03" => c03::replay(ctx, part, case),
        "C04" => c04::replay(ctx, part, case),
        "C05" => c05::replay(ctx, part, case),
        "C06" => c06::replay(ctx, part, case),
        "C07" => c07::replay(ctx, part, case),
        "C08" => c08::replay(ctx, part, case),
        "C09" => c09::replay(ctx, part, case),
        "C10" => c10::replay(ctx, part, case),
        "C11" => c11::replay(ctx, part, case),
        "C12" => c12::replay(ctx, part, case),
        "C13" => c13::replay(ctx, part, case),
        "C14" => c14::replay(ctx, part, case),
        "C15" => c15::replay(ctx, part, case),
        "C16" => c16::replay(ctx, part, case),
        "C17" => c17::replay(ctx, part, case),
        "C18" => c18::replay(ctx, part, case),
        _ => {
            ctx.say(&format!("unknown property id {}", id));
            std::process::exit(2)
        }
    }
}
