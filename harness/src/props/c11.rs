//! C11 Codec round-trip and RFC wire layout.

use crate::common::*;
use crate::gen;
use crate::refcodec::{self, RDec, RPacket};
use crate::viol;
use serde::{Deserialize, Serialize};
use serde_json::Value;
use tftpd::{ErrorCode, Opcode, Packet};

pub fn judge_packet(rp: &RPacket, obs: &mut Obs) -> Judge {
    let (kind, nontrivial) = match rp {
        RPacket::Rrq { filename, mode, options } => ("rrq", !options.is_empty() || !filename.is_empty() || !mode.is_empty()),
        RPacket::Wrq { filename, mode, options } => ("wrq", !options.is_empty() || !filename.is_empty() || !mode.is_empty()),
        RPacket::Data { data, .. } => ("data", !data.is_empty()),
        RPacket::Ack(_) => ("ack", false),
        RPacket::Error { msg, .. } => ("error", !msg.is_empty()),
        RPacket::Oack(o) => ("oack", !o.is_empty()),
    };
    obs.class(kind);
    obs.nontrivial = nontrivial;
    match rp {
        RPacket::Rrq { filename, options, .. } | RPacket::Wrq { filename, options, .. } => {
            obs.class_if(options.len() >= 2, "multi-option");
            obs.class_if(!filename.is_ascii(), "non-ascii-string");
            obs.class_if(filename.len() >= 500, "long-string");
            obs.class_if(options.iter().any(|(_, v)| *v > u32::MAX as u64), "value-above-2^32");
        }
        RPacket::Data { data, .. } => {
            obs.class_if(data.len() >= 65464, "max-payload");
        }
        _ => {}
    }
    let p = refcodec::to_t(rp);
    let want = refcodec::encode(rp);
    let got = match no_panic(|| p.serialize()) {
        Ok(Ok(b)) => b,
        Ok(Err(e)) => viol!("encode-failed", "serialize({:?}) failed: {}", p, e),
        Err(m) => viol!("encode-panic", "serialize({:?}) panicked: {}", p, m),
    };
    if got != want {
        viol!("wire-layout", "serialize({:?}) = {} but the RFC layout is {}", rp, hex(&got), hex(&want));
    }
    match no_panic(|| Packet::deserialize(&got)) {
        Ok(Ok(q)) => {
            if q != p {
                viol!("roundtrip", "deserialize(serialize(p)) = {:?} differs from p = {:?}", q, p);
            }
        }
        Ok(Err(e)) => viol!("roundtrip", "deserialize(serialize(p)) failed: {} for p = {:?}", e, p),
        Err(m) => viol!("decode-panic", "deserialize panicked: {} on encoding of {:?}", m, p),
    }
    // independent decoder on the implementation's bytes
    match refcodec::decode(&got) {
        RDec::Ok(r) => {
            if &r != rp {
                viol!("wire-layout", "reference decoder reads {:?} from the encoding of {:?}", r, rp);
            }
        }
        other => viol!("wire-layout", "reference decoder cannot read the encoding of {:?}: {:?}", rp, other),
    }
    // and the implementation's decoder on the reference encoder's bytes
    match no_panic(|| Packet::deserialize(&want)) {
        Ok(Ok(q)) => {
            if q != p {
                viol!("roundtrip", "deserialize(RFC encoding) = {:?}, expected {:?}", q, p);
            }
        }
        Ok(Err(e)) => viol!("roundtrip", "deserialize(RFC encoding of {:?}) failed: {}", rp, e),
        Err(m) => viol!("decode-panic", "deserialize panicked: {} on RFC encoding of {:?}", m, rp),
    }
    Ok(())
}

#[derive(Clone, Debug, Serialize, Deserialize)]
pub struct U16Case {
    pub v: u16,
}

fn opcode_code(o: &Opcode) -> u16 {
    match o {
        Opcode::Rrq => 1,
        Opcode::Wrq => 2,
        Opcode::Data => 3,
        Opcode::Ack => 4,
        Opcode::Error => 5,
        Opcode::Oack => 6,
    }
}

pub fn judge_u16(c: &U16Case, obs: &mut Obs) -> Judge {
    let v = c.v;
    obs.nontrivial = true;
    let op = no_panic(|| Opcode::from_u16(v));
    match op {
        Err(m) => viol!("enum-panic", "Opcode::from_u16({}) panicked: {}", v, m),
        Ok(Ok(o)) => {
            obs.class("opcode-accepted");
            if !(1..=6).contains(&v) {
                viol!("opcode-domain", "Opcode::from_u16({}) accepted: {:?}", v, o);
            }
            if opcode_code(&o) != v {
                viol!("opcode-inverse", "Opcode::from_u16({}) = {:?}", v, o);
            }
            let b = o.as_bytes();
            if b != [(v >> 8) as u8, (v & 0xff) as u8] {
                viol!("opcode-inverse", "Opcode {} as_bytes = {:?}", v, b);
            }
        }
        Ok(Err(_)) => {
            if (1..=6).contains(&v) {
                viol!("opcode-domain", "Opcode::from_u16({}) rejected", v);
            }
        }
    }
    match no_panic(|| ErrorCode::from_u16(v)) {
        Err(m) => viol!("enum-panic", "ErrorCode::from_u16({}) panicked: {}", v, m),
        Ok(Ok(e)) => {
            obs.class("errorcode-accepted");
            if v > 7 {
                viol!("errcode-domain", "ErrorCode::from_u16({}) accepted: {:?}", v, e);
            }
            if refcodec::code_from_t(e) != v {
                viol!("errcode-inverse", "ErrorCode::from_u16({}) = {:?}", v, e);
            }
            let b = e.as_bytes();
            if b != [(v >> 8) as u8, (v & 0xff) as u8] {
                viol!("errcode-inverse", "ErrorCode {} as_bytes = {:?}", v, b);
            }
        }
        Ok(Err(_)) => {
            if v <= 7 {
                viol!("errcode-domain", "ErrorCode::from_u16({}) rejected", v);
            }
        }
    }
    // every block number survives DATA and ACK
    let d = Packet::Data { block_num: v, data: vec![v as u8] };
    let a = Packet::Ack(v);
    for p in [d, a] {
        let bytes = match no_panic(|| p.serialize()) {
            Ok(Ok(b)) => b,
            _ => viol!("encode-failed", "serialize({:?}) failed", p),
        };
        if bytes[2] != (v >> 8) as u8 || bytes[3] != (v & 0xff) as u8 {
            viol!("wire-layout", "block number {} encoded as {:?}", v, &bytes[2..4]);
        }
        match no_panic(|| Packet::deserialize(&bytes)) {
            Ok(Ok(q)) if q == p => {}
            other => viol!("roundtrip", "block {}: decode gives {:?}", v, other.map(|r| r.map_err(|e| e.to_string()))),
        }
    }
    Ok(())
}

pub fn run(ctx: &Ctx) {
    ctx.set_rule("Packet values generated from a grammar (six kinds; strings empty/ASCII/Unicode/500+ bytes without NUL; 0-6 options with boundary-biased values up to 2^64-1; any block number; payloads 0..65464) compared with an independent RFC encoder/decoder in both directions, plus an exhaustive sweep of all 65536 values through Opcode/ErrorCode conversions and DATA/ACK block numbers. Non-trivial = packet carries an option, a non-empty string or payload (every u16 of the sweep counts); distinct = distinct packet values.");
    ctx.assume("option values are compared as u64; tftpd stores usize, equal on this 64-bit target");
    enumerate_idx(ctx, "exh-u16", 65536, true, |i| U16Case { v: i as u16 }, judge_u16);
    explore(ctx, "grammar", ctx.tier.pick(500_000, 8_000_000), gen::rpacket, judge_packet);
}

pub fn replay(ctx: &Ctx, part: &str, case: &Value) -> bool {
    match part {
        "exh-u16" => replay_one(ctx, part, case, judge_u16),
        _ => replay_one(ctx, part, case, judge_packet),
    }
}
