//! C17 Command-line configuration: reference parser + permutation metamorphic relation.

use crate::common::*;
use crate::viol;
use proptest::prelude::*;
use serde::{Deserialize, Serialize};
use serde_json::Value;
use std::net::IpAddr;
use std::path::PathBuf;
use std::time::Duration;
use tftpd::{ClientConfig, Config, Mode};

#[derive(Clone, Debug, Serialize, Deserialize)]
pub struct Case {
    pub client: bool,
    /// argument tokens after argv[0]; directory placeholders @D1 @D2 @D3 (existing) and @NX (missing)
    pub tokens: Vec<String>,
    /// permutation seed for the metamorphic re-run (pairs are permuted, not tokens)
    pub perm: Vec<u16>,
    /// token groups (indices into tokens) that move together
    pub groups: Vec<(usize, usize)>,
}

#[derive(Clone, Debug, PartialEq)]
pub struct RefServer {
    ip: IpAddr,
    port: u16,
    directory: Option<String>, // None = current dir
    receive: Option<String>,
    send: Option<String>,
    single: bool,
    read_only: bool,
    dup: u8,
    overwrite: bool,
    clean: bool,
}

fn is_existing(tok: &str) -> bool {
    // (".", ".." : relative directories that exist wherever the check runs)
    matches!(tok, "@D1" | "@D2" | "@D3" | "." | "..")
}

/// Reference parser for the server, straight from the documented flag table.
pub fn ref_server(tokens: &[String]) -> Result<RefServer, String> {
    let mut r = RefServer {
        ip: "127.0.0.1".parse().unwrap(),
        port: 69,
        directory: None,
        receive: None,
        send: None,
        single: false,
        read_only: false,
        dup: 0,
        overwrite: false,
        clean: true,
    };
    let mut i = 0;
    while i < tokens.len() {
        let t = tokens[i].as_str();
        let mut value = || -> Result<String, String> {
            i += 1;
            tokens.get(i).cloned().ok_or_else(|| format!("flag {} misses its value", t))
        };
        match t {
            "-i" | "--ip-address" => {
                let v = value()?;
                r.ip = v.parse::<IpAddr>().map_err(|_| format!("bad ip {}", v))?;
            }
            "-p" | "--port" => {
                let v = value()?;
                r.port = parse_dec(&v, 65535).ok_or(format!("bad port {}", v))? as u16;
            }
            "-d" | "--directory" => {
                let v = value()?;
                if !is_existing(&v) {
                    return Err(format!("directory {} does not exist", v));
                }
                r.directory = Some(v);
            }
            "-rd" | "--receive-directory" => {
                let v = value()?;
                if !is_existing(&v) {
                    return Err(format!("directory {} does not exist", v));
                }
                r.receive = Some(v);
            }
            "-sd" | "--send-directory" => {
                let v = value()?;
                if !is_existing(&v) {
                    return Err(format!("directory {} does not exist", v));
                }
                r.send = Some(v);
            }
            "-s" | "--single-port" => r.single = true,
            "-r" | "--read-only" => r.read_only = true,
            "--duplicate-packets" => {
                let v = value()?;
                r.dup = parse_dec(&v, 254).ok_or(format!("bad duplicate-packets {}", v))? as u8;
            }
            "--overwrite" => r.overwrite = true,
            "--keep-on-error" => r.clean = false,
            other => return Err(format!("unknown flag {}", other)),
        }
        i += 1;
    }
    Ok(r)
}

/// decimal number without sign (an explicit '+' is what Rust's parser also takes) up to max
fn parse_dec(s: &str, max: u64) -> Option<u64> {
    let digits = s.strip_prefix('+').unwrap_or(s);
    if digits.is_empty() || !digits.bytes().all(|b| b.is_ascii_digit()) {
        return None;
    }
    let mut v: u64 = 0;
    for b in digits.bytes() {
        v = v.checked_mul(10)?.checked_add((b - b'0') as u64)?;
    }
    if v > max {
        None
    } else {
        Some(v)
    }
}

#[derive(Clone, Debug, PartialEq)]
pub struct RefClient {
    ip: IpAddr,
    port: u16,
    blk: u64,
    ws: u16,
    timeout: u64,
    upload: bool,
    receive: Option<String>,
    file: String,
    clean: bool,
}

pub fn ref_client(tokens: &[String]) -> Result<RefClient, String> {
    let mut r = RefClient {
        ip: "127.0.0.1".parse().unwrap(),
        port: 69,
        blk: 512,
        ws: 1,
        timeout: 5,
        upload: false,
        receive: None,
        file: String::new(),
        clean: true,
    };
    let mut i = 0;
    while i < tokens.len() {
        let t = tokens[i].as_str();
        let mut value = || -> Result<String, String> {
            i += 1;
            tokens.get(i).cloned().ok_or_else(|| format!("flag {} misses its value", t))
        };
        match t {
            "-i" | "--ip-address" => {
                let v = value()?;
                r.ip = v.parse::<IpAddr>().map_err(|_| format!("bad ip {}", v))?;
            }
            "-p" | "--port" => {
                let v = value()?;
                r.port = parse_dec(&v, 65535).ok_or(format!("bad port {}", v))? as u16;
            }
            "-b" | "--blocksize" => {
                let v = value()?;
                r.blk = parse_dec(&v, u64::MAX).ok_or(format!("bad blocksize {}", v))?;
            }
            "-w" | "--windowsize" => {
                let v = value()?;
                r.ws = parse_dec(&v, 65535).ok_or(format!("bad windowsize {}", v))? as u16;
            }
            "-t" | "--timeout" => {
                let v = value()?;
                r.timeout = parse_dec(&v, u64::MAX).ok_or(format!("bad timeout {}", v))?;
            }
            "-rd" | "--receive-directory" => {
                let v = value()?;
                if !is_existing(&v) {
                    return Err(format!("directory {} does not exist", v));
                }
                r.receive = Some(v);
            }
            "-u" | "--upload" => r.upload = true,
            "-d" | "--download" => r.upload = false,
            "--keep-on-error" => r.clean = false,
            name => {
                // positional: the file, with leading separators stripped and '\' normalised
                let stripped = name.trim_start_matches(|c| c == '/' || c == '\\');
                r.file = stripped.replace('\\', "/");
            }
        }
        i += 1;
    }
    Ok(r)
}

pub struct Dirs {
    pub d: [PathBuf; 3],
    pub nx: PathBuf,
}

fn subst(tok: &str, dirs: &Dirs) -> String {
    match tok {
        "@D1" => dirs.d[0].to_string_lossy().to_string(),
        "@D2" => dirs.d[1].to_string_lossy().to_string(),
        "@D3" => dirs.d[2].to_string_lossy().to_string(),
        "@NX" => dirs.nx.to_string_lossy().to_string(),
        t => t.to_string(),
    }
}

fn check_server(tokens: &[String], dirs: &Dirs, obs: &mut Obs) -> Result<Result<RefServer, String>, Viol> {
    let want = ref_server(tokens);
    let argv: Vec<String> = std::iter::once("tftpd".to_string()).chain(tokens.iter().map(|t| subst(t, dirs))).collect();
    let got = match no_panic(|| Config::new(argv.clone().into_iter()).map_err(|e| e.to_string())) {
        Ok(g) => g,
        Err(m) => return Err(Viol::new("config-panic", format!("Config::new panicked: {} on {:?}", m, tokens))),
    };
    match (&want, &got) {
        (Err(why), Ok(_)) => {
            return Err(Viol::new("accepted-invalid", format!("arguments {:?} must be rejected ({}) but were accepted", tokens, why)))
        }
        (Ok(_), Err(e)) => return Err(Viol::new("rejected-valid", format!("arguments {:?} are valid but were rejected: {}", tokens, e))),
        (Err(_), Err(_)) => {
            obs.class("invalid-rejected");
        }
        (Ok(w), Ok(g)) => {
            let cwd = std::env::current_dir().unwrap();
            let dir = |o: &Option<String>| o.as_ref().map(|t| PathBuf::from(subst(t, dirs)));
            let directory = dir(&w.directory).unwrap_or(cwd);
            let receive = dir(&w.receive).unwrap_or(directory.clone());
            let send = dir(&w.send).unwrap_or(directory.clone());
            let mut diffs = vec![];
            if g.ip_address != w.ip {
                diffs.push(format!("ip_address {} != {}", g.ip_address, w.ip));
            }
            if g.port != w.port {
                diffs.push(format!("port {} != {}", g.port, w.port));
            }
            if g.directory != directory {
                diffs.push(format!("directory {:?} != {:?}", g.directory, directory));
            }
            if g.receive_directory != receive {
                diffs.push(format!("receive_directory {:?} != {:?}", g.receive_directory, receive));
            }
            if g.send_directory != send {
                diffs.push(format!("send_directory {:?} != {:?}", g.send_directory, send));
            }
            if g.single_port != w.single {
                diffs.push(format!("single_port {} != {}", g.single_port, w.single));
            }
            if g.read_only != w.read_only {
                diffs.push(format!("read_only {} != {}", g.read_only, w.read_only));
            }
            if g.duplicate_packets != w.dup {
                diffs.push(format!("duplicate_packets {} != {}", g.duplicate_packets, w.dup));
            }
            if g.overwrite != w.overwrite {
                diffs.push(format!("overwrite {} != {}", g.overwrite, w.overwrite));
            }
            if g.clean_on_error != w.clean {
                diffs.push(format!("clean_on_error {} != {}", g.clean_on_error, w.clean));
            }
            if !diffs.is_empty() {
                return Err(Viol::new("wrong-config", format!("arguments {:?}: {}", tokens, diffs.join("; "))));
            }
            obs.class("valid-accepted");
        }
    }
    Ok(want)
}

fn check_client(tokens: &[String], dirs: &Dirs, obs: &mut Obs) -> Result<Result<RefClient, String>, Viol> {
    let want = ref_client(tokens);
    let argv: Vec<String> = tokens.iter().map(|t| subst(t, dirs)).collect();
    let got = match no_panic(|| ClientConfig::new(argv.clone().into_iter()).map_err(|e| e.to_string())) {
        Ok(g) => g,
        Err(m) => return Err(Viol::new("config-panic", format!("ClientConfig::new panicked: {} on {:?}", m, tokens))),
    };
    match (&want, &got) {
        (Err(why), Ok(_)) => {
            return Err(Viol::new("accepted-invalid", format!("client arguments {:?} must be rejected ({}) but were accepted", tokens, why)))
        }
        (Ok(_), Err(e)) => return Err(Viol::new("rejected-valid", format!("client arguments {:?} are valid but were rejected: {}", tokens, e))),
        (Err(_), Err(_)) => obs.class("invalid-rejected"),
        (Ok(w), Ok(g)) => {
            let mut diffs = vec![];
            if g.remote_ip_address != w.ip {
                diffs.push(format!("remote_ip_address {} != {}", g.remote_ip_address, w.ip));
            }
            if g.port != w.port {
                diffs.push(format!("port {} != {}", g.port, w.port));
            }
            if g.blocksize as u64 != w.blk {
                diffs.push(format!("blocksize {} != {}", g.blocksize, w.blk));
            }
            if g.windowsize != w.ws {
                diffs.push(format!("windowsize {} != {}", g.windowsize, w.ws));
            }
            if g.timeout != Duration::from_secs(w.timeout) {
                diffs.push(format!("timeout {:?} != {}s", g.timeout, w.timeout));
            }
            if (g.mode == Mode::Upload) != w.upload {
                diffs.push(format!("mode {:?} != upload={}", g.mode, w.upload));
            }
            let receive = w.receive.as_ref().map(|t| PathBuf::from(subst(t, dirs))).unwrap_or_default();
            if g.receive_directory != receive {
                diffs.push(format!("receive_directory {:?} != {:?}", g.receive_directory, receive));
            }
            if g.file_path != PathBuf::from(&w.file) {
                diffs.push(format!("file_path {:?} != {:?}", g.file_path, w.file));
            }
            if g.clean_on_error != w.clean {
                diffs.push(format!("clean_on_error {} != {}", g.clean_on_error, w.clean));
            }
            if !diffs.is_empty() {
                return Err(Viol::new("wrong-config", format!("client arguments {:?}: {}", tokens, diffs.join("; "))));
            }
            obs.class("valid-accepted");
        }
    }
    Ok(want)
}

/// last token group per flag class, used to decide whether a permutation must not change the outcome
fn flag_class(client: bool, t: &str) -> String {
    let c = match t {
        "-i" | "--ip-address" => "ip",
        "-p" | "--port" => "port",
        "-d" | "--directory" if !client => "dir",
        "-rd" | "--receive-directory" => "rd",
        "-sd" | "--send-directory" if !client => "sd",
        "-s" | "--single-port" if !client => "single",
        "-r" | "--read-only" if !client => "ro",
        "--duplicate-packets" if !client => "dup",
        "--overwrite" if !client => "ow",
        "--keep-on-error" => "keep",
        "-b" | "--blocksize" if client => "blk",
        "-w" | "--windowsize" if client => "ws",
        "-t" | "--timeout" if client => "to",
        "-u" | "--upload" | "-d" | "--download" if client => "mode",
        other => {
            if client {
                "file"
            } else {
                return format!("unknown:{}", other);
            }
        }
    };
    c.to_string()
}

pub fn judge(dirs: &Dirs, c: &Case, obs: &mut Obs) -> Judge {
    obs.class(if c.client { "client" } else { "server" });
    let groups: Vec<Vec<String>> = c.groups.iter().map(|(s, e)| c.tokens[*s..*e].to_vec()).collect();
    let repeated = {
        let mut seen = std::collections::HashSet::new();
        groups.iter().any(|g| !seen.insert(flag_class(c.client, &g[0])))
    };
    let first = if c.client {
        check_client(&c.tokens, dirs, obs).map(|r| r.map(|x| format!("{:?}", x)))
    } else {
        check_server(&c.tokens, dirs, obs).map(|r| r.map(|x| format!("{:?}", x)))
    }?;
    obs.nontrivial = groups.len() >= 3 && (repeated || first.is_err());
    obs.class_if(repeated, "repeated-flag");
    obs.class_if(groups.len() >= 3, "three-or-more-pairs");
    // metamorphic: permute the groups; if the last occurrence of every flag keeps its value the outcome is identical
    if groups.len() >= 2 && !c.perm.is_empty() {
        let mut order: Vec<usize> = (0..groups.len()).collect();
        for (i, r) in c.perm.iter().enumerate() {
            let n = order.len();
            let a = i % n;
            let b = pick_idx(*r, n);
            order.swap(a, b);
        }
        let last_map = |gs: &Vec<&Vec<String>>| {
            let mut m = std::collections::BTreeMap::new();
            for g in gs {
                m.insert(flag_class(c.client, &g[0]), (*g).clone());
            }
            m
        };
        let orig: Vec<&Vec<String>> = groups.iter().collect();
        let perm: Vec<&Vec<String>> = order.iter().map(|i| &groups[*i]).collect();
        // a trailing flag without value must stay last, otherwise it would swallow another flag
        let dangling_moved = c.groups.last().map(|(s, e)| e - s == 1 && needs_value(c.client, &c.tokens[*s])).unwrap_or(false) && *order.last().unwrap() != groups.len() - 1;
        if !dangling_moved && last_map(&orig) == last_map(&perm) {
            obs.class("permutation-checked");
            let ptokens: Vec<String> = perm.iter().flat_map(|g| g.iter().cloned()).collect();
            let mut o2 = Obs::default();
            let second = if c.client {
                check_client(&ptokens, dirs, &mut o2).map(|r| r.map(|x| format!("{:?}", x)))
            } else {
                check_server(&ptokens, dirs, &mut o2).map(|r| r.map(|x| format!("{:?}", x)))
            }?;
            if first.is_ok() != second.is_ok() || (first.is_ok() && first != second) {
                viol!("order-dependence", "reference outcomes differ between {:?} and {:?}", c.tokens, ptokens);
            }
        }
    }
    Ok(())
}

fn needs_value(client: bool, t: &str) -> bool {
    matches!(t, "-i" | "--ip-address" | "-p" | "--port" | "-rd" | "--receive-directory")
        || (!client && matches!(t, "-d" | "--directory" | "-sd" | "--send-directory" | "--duplicate-packets"))
        || (client && matches!(t, "-b" | "--blocksize" | "-w" | "--windowsize" | "-t" | "--timeout"))
}

fn sel(v: &[&str]) -> BoxedStrategy<String> {
    prop::sample::select(v.iter().map(|s| s.to_string()).collect::<Vec<_>>()).boxed()
}

fn server_group() -> BoxedStrategy<Vec<String>> {
    let ip = prop_oneof![4 => sel(&["127.0.0.1", "0.0.0.0", "::1", "192.168.1.7", "::", "fe80::1"]), 1 => sel(&["localhost", "256.0.0.1", "", "1.2.3", "1.2.3.4.5", ":::1"])];
    let port = prop_oneof![4 => (0u32..65536).prop_map(|p| p.to_string()), 1 => sel(&["65536", "-1", "", "abc", "69 ", "0x45", "99999999999"])];
    let dir = prop_oneof![5 => sel(&["@D1", "@D2", "@D3"]), 2 => sel(&[".", ".."]), 1 => sel(&["@NX"])];
    let dup = prop_oneof![4 => (0u32..255).prop_map(|p| p.to_string()), 2 => sel(&["255", "256", "-1", "", "x", "1000"])];
    prop_oneof![
        3 => (sel(&["-i", "--ip-address"]), ip).prop_map(|(f, v)| vec![f, v]),
        3 => (sel(&["-p", "--port"]), port).prop_map(|(f, v)| vec![f, v]),
        3 => (sel(&["-d", "--directory"]), dir.clone()).prop_map(|(f, v)| vec![f, v]),
        3 => (sel(&["-rd", "--receive-directory"]), dir.clone()).prop_map(|(f, v)| vec![f, v]),
        3 => (sel(&["-sd", "--send-directory"]), dir).prop_map(|(f, v)| vec![f, v]),
        2 => sel(&["-s", "--single-port"]).prop_map(|f| vec![f]),
        2 => sel(&["-r", "--read-only"]).prop_map(|f| vec![f]),
        3 => (Just("--duplicate-packets".to_string()), dup).prop_map(|(f, v)| vec![f, v]),
        2 => Just(vec!["--overwrite".to_string()]),
        2 => Just(vec!["--keep-on-error".to_string()]),
        1 => sel(&["--bogus", "-x", "file.txt", "--Port", "-P", "", "--read_only"]).prop_map(|f| vec![f]),
    ]
    .boxed()
}

fn client_group() -> BoxedStrategy<Vec<String>> {
    let ip = prop_oneof![4 => sel(&["127.0.0.1", "::1", "10.0.0.9"]), 1 => sel(&["localhost", "256.0.0.1", ""])];
    let port = prop_oneof![4 => (0u32..65536).prop_map(|p| p.to_string()), 1 => sel(&["65536", "-1", "", "abc"])];
    let blk = prop_oneof![4 => (0u64..70000).prop_map(|p| p.to_string()), 1 => sel(&["18446744073709551615", "18446744073709551616", "-8", "x", ""])];
    let ws = prop_oneof![4 => (0u32..65536).prop_map(|p| p.to_string()), 1 => sel(&["65536", "-1", "w", ""])];
    let to = prop_oneof![4 => (0u32..300).prop_map(|p| p.to_string()), 1 => sel(&["18446744073709551615", "18446744073709551616", "-1", "5s", ""])];
    let dir = prop_oneof![5 => sel(&["@D1", "@D2", "@D3"]), 2 => sel(&[".", ".."]), 1 => sel(&["@NX"])];
    prop_oneof![
        2 => (sel(&["-i", "--ip-address"]), ip).prop_map(|(f, v)| vec![f, v]),
        2 => (sel(&["-p", "--port"]), port).prop_map(|(f, v)| vec![f, v]),
        3 => (sel(&["-b", "--blocksize"]), blk).prop_map(|(f, v)| vec![f, v]),
        3 => (sel(&["-w", "--windowsize"]), ws).prop_map(|(f, v)| vec![f, v]),
        3 => (sel(&["-t", "--timeout"]), to).prop_map(|(f, v)| vec![f, v]),
        2 => (sel(&["-rd", "--receive-directory"]), dir).prop_map(|(f, v)| vec![f, v]),
        3 => sel(&["-u", "--upload"]).prop_map(|f| vec![f]),
        3 => sel(&["-d", "--download"]).prop_map(|f| vec![f]),
        2 => Just(vec!["--keep-on-error".to_string()]),
        4 => sel(&["file.bin", "dir/file.bin", "dir\\sub\\file.bin", "/abs/file", "\\\\share\\f", "--bogus", "", "a b", "tftpc", "README.md", "Dir/File.BIN", "Dir\\Image-V2.BIN", "UPPER", "-U", "--Upload", "-RD"]).prop_map(|f| vec![f]),
    ]
    .boxed()
}

pub fn strategy() -> BoxedStrategy<Case> {
    (any::<bool>(), 0usize..=9, any::<bool>())
        .prop_flat_map(|(client, n, dangling)| {
            let g = if client { client_group() } else { server_group() };
            (
                Just(client),
                proptest::collection::vec(g, n),
                proptest::collection::vec(any::<u16>(), 0..8),
                if dangling {
                    if client {
                        sel(&["-p", "-b", "--timeout", "-rd", "-i", "-w"]).prop_map(Some).boxed()
                    } else {
                        sel(&["-p", "-d", "--duplicate-packets", "-rd", "-sd", "-i"]).prop_map(Some).boxed()
                    }
                } else {
                    Just(None).boxed()
                },
            )
        })
        .prop_map(|(client, gs, perm, dangling)| {
            let mut tokens = vec![];
            let mut groups = vec![];
            for g in gs {
                let s = tokens.len();
                tokens.extend(g);
                groups.push((s, tokens.len()));
            }
            if let Some(d) = dangling {
                // one case in ~8 gets a trailing flag without value
                if perm.len() % 8 == 0 {
                    let s = tokens.len();
                    tokens.push(d);
                    groups.push((s, tokens.len()));
                }
            }
            Case {
                client,
                tokens,
                perm,
                groups,
            }
        })
        .boxed()
}

/// all permutations of small multisets: exhaustive part
fn permutations_cases() -> Vec<Case> {
    let pool: Vec<Vec<&str>> = vec![
        vec!["-p", "1000"],
        vec!["--port", "2000"],
        vec!["-d", "@D1"],
        vec!["-d", "@D2"],
        vec!["-rd", "@D3"],
        vec!["-sd", "@D2"],
        vec!["-r"],
        vec!["-s"],
        vec!["--overwrite"],
        vec!["--keep-on-error"],
        vec!["--duplicate-packets", "3"],
        vec!["--duplicate-packets", "255"],
        vec!["-i", "::1"],
        vec!["-p", "65536"],
        vec!["-d", "@NX"],
        vec!["--bogus"],
    ];
    let mut out = vec![];
    // every ordered selection of up to 4 distinct pool entries (= all permutations of all subsets <= 4)
    fn rec(pool: &Vec<Vec<&str>>, cur: &mut Vec<usize>, max: usize, out: &mut Vec<Case>) {
        let mut tokens = vec![];
        let mut groups = vec![];
        for i in cur.iter() {
            let s = tokens.len();
            tokens.extend(pool[*i].iter().map(|t| t.to_string()));
            groups.push((s, tokens.len()));
        }
        out.push(Case {
            client: false,
            tokens,
            perm: vec![],
            groups,
        });
        if cur.len() == max {
            return;
        }
        for i in 0..pool.len() {
            if !cur.contains(&i) {
                cur.push(i);
                rec(pool, cur, max, out);
                cur.pop();
            }
        }
    }
    rec(&pool, &mut vec![], 4, &mut out);
    out
}

fn mk_dirs(ctx: &Ctx) -> Dirs {
    let base = ctx.fresh_dir("c17");
    let d = [base.join("d1"), base.join("d2"), base.join("d3 with space")];
    for p in &d {
        std::fs::create_dir_all(p).unwrap();
    }
    Dirs { d, nx: base.join("missing/dir") }
}

pub fn run(ctx: &Ctx) {
    ctx.set_rule("argument vectors built from (flag, value) groups over the complete server and client flag sets: long/short spellings, valid and invalid values (bad IP, port 65536, missing directory, duplicate-packets 255/256/-1, non-numeric), repeated flags, unknown flags, trailing flag without value; each vector is parsed by Config::new / ClientConfig::new and by a reference parser (error if anything is invalid, else last occurrence wins, documented defaults, -rd/-sd fall back to -d iff absent) and all fields are compared; a generated permutation of the groups that keeps each flag's last occurrence is re-parsed and must give the identical configuration. Exhaustive: all ordered selections of <=4 of 16 representative groups. -h/--help is excluded (it exits the process). Non-trivial = >=3 groups with a repeated flag or an invalid value; distinct = distinct token vectors.");
    let dirs = mk_dirs(ctx);
    let cases = permutations_cases();
    enumerate(ctx, "exh-permutations", &cases, true, |c, o| judge(&dirs, c, o));
    explore(ctx, "random", ctx.tier.pick(500_000, 6_000_000), strategy, |c: &Case, o| judge(&dirs, c, o));
}

pub fn replay(ctx: &Ctx, part: &str, case: &Value) -> bool {
    let dirs = mk_dirs(ctx);
    replay_one(ctx, part, case, |c: &Case, o| judge(&dirs, c, o))
}
