//! C13 wire part (filled in with the wire engine).
use crate::common::*;
use serde_json::Value;

pub fn run_wire(_ctx: &Ctx) {}

pub fn replay(ctx: &Ctx, part: &str, _case: &Value) -> bool {
    ctx.say(&format!("unknown part {}", part));
    std::process::exit(2)
}
