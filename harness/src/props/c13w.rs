//! C13 wire part: duplicate / retransmitted WRQs for one name against the real tftpd.

use crate::common::*;
use crate::viol;
use crate::wclient::{self, Negotiated, Start, UploadEnd};
use crate::wire::{self, Client, Server, StartError};
use proptest::prelude::*;
use serde::{Deserialize, Serialize};
use serde_json::Value;
use std::path::Path;
use std::time::Duration;

#[derive(Clone, Debug, Serialize, Deserialize)]
pub enum Act {
    /// endpoint j sends a WRQ for the shared name (timeout=1 so that stale workers give up after ~6 s)
    Wrq(u8),
    /// endpoint j sends the first k blocks of its most recently accepted upload and then goes silent
    Partial(u8, u8),
    /// short pause in ms
    Pause(u16),
}

#[derive(Clone, Debug, Serialize, Deserialize)]
pub struct Case {
    pub overwrite: bool,
    pub single: bool,
    pub keep: bool,
    pub acts: Vec<Act>,
    pub len: usize,
    pub seed: u64,
    /// after the latest upload has completed: a further WRQ for the same name that the server cannot accept as it
    /// stands (it carries this unhonourable option value, index into BAD_OPTS)
    #[serde(default)]
    pub later_unacceptable_wrq: Option<u8>,
}

const BAD_OPTS: [(&str, &str); 5] = [("blksize", "7"), ("timeout", "0"), ("windowsize", "0"), ("windowsize", "65536"), ("blksize", "65465")];

pub const KNOWN_SIG: &str = "stale-upload-worker-cleanup";

fn run_case(dir: &Path, c: &Case) -> Result<Vec<&'static str>, (String, String)> {
    let root = dir.join("c13w");
    let _ = std::fs::remove_dir_all(&root);
    let recv = root.join("recv");
    std::fs::create_dir_all(&recv).unwrap();
    let mut args = vec![wire::s("-d"), recv.to_string_lossy().to_string()];
    if c.overwrite {
        args.push(wire::s("--overwrite"));
    }
    if c.single {
        args.push(wire::s("-s"));
    }
    if c.keep {
        args.push(wire::s("--keep-on-error"));
    }
    let mut srv = match Server::start(&args, &root) {
        Ok(s) => s,
        Err(StartError::Exited(code, e)) => return Err(("harness".into(), format!("tftpd exited at start-up with {}: {}", code, e))),
        Err(StartError::Harness(e)) => return Err(("harness".into(), e)),
    };
    let name = "x.bin";
    let opts = vec![("timeout".to_string(), "1".to_string()), ("blksize".to_string(), "64".to_string())];
    let endpoints: Vec<Client> = (0..3).map(|_| Client::new()).collect();
    // accepted uploads in acceptance order: (endpoint, negotiated, content, blocks already sent)
    let mut accepted: Vec<(usize, Negotiated, Vec<u8>, usize)> = vec![];
    let mut classes = vec![];
    let mut last_accept: Option<std::time::Instant> = None;
    for (i, a) in c.acts.iter().enumerate() {
        match a {
            Act::Wrq(j) => {
                let j = *j as usize % 3;
                // the earlier worker's file is observed BEFORE the duplicate is sent: whatever the listener then sees includes it
                let settled = last_accept.map(|t| t.elapsed() >= Duration::from_millis(400)).unwrap_or(false) && recv.join(name).exists();
                // drop stale datagrams of an earlier transfer of this endpoint
                let _ = endpoints[j].drain(Duration::from_millis(1));
                match wclient::start(&endpoints[j], srv.addr, true, name, &opts, Duration::from_millis(1500)) {
                    Start::Accepted { neg, .. } => {
                        if !c.overwrite && settled {
                            // the earlier worker created the file long ago: without --overwrite this request names an existing file
                            return Err(("duplicate-accepted-although-file-exists".into(), format!("WRQ #{} for {} was accepted without --overwrite although an upload accepted {:?} earlier has created the file", i, name, last_accept.map(|t| t.elapsed()))));
                        }
                        let data = content(c.seed ^ (i as u64 * 31 + 5), c.len + i);
                        accepted.push((j, neg, data, 0));
                        last_accept = Some(std::time::Instant::now());
                    }
                    Start::Refused { code, .. } => {
                        if code == 6 {
                            classes.push("duplicate-wrq-refused-exists");
                        }
                    }
                    Start::Silent => {}
                    Start::Weird(w) => return Err(("bad-reply".into(), format!("WRQ #{}: {}", i, w))),
                }
            }
            Act::Partial(j, k) => {
                let j = *j as usize % 3;
                if let Some(pos) = accepted.iter().rposition(|x| x.0 == j) {
                    let (_, neg, data, sent) = &mut accepted[pos];
                    if *sent == 0 {
                        let nb = data.len() / neg.blk + 1;
                        let k = (*k as usize).min(nb.saturating_sub(1));
                        for b in 1..=k {
                            let s = (b - 1) * neg.blk;
                            endpoints[j].send(&crate::refcodec::data(b as u16, &data[s..s + neg.blk]), neg.peer);
                            let _ = endpoints[j].recv(Duration::from_millis(300));
                        }
                        *sent = k;
                    }
                }
            }
            Act::Pause(ms) => std::thread::sleep(Duration::from_millis(*ms as u64 % 700)),
        }
    }
    if accepted.is_empty() {
        drop(srv);
        let _ = std::fs::remove_dir_all(&root);
        return Ok(vec!["nothing-accepted"]);
    }
    if accepted.len() >= 2 {
        classes.push("two-or-more-accepted-for-one-name");
    }
    // complete the most recently accepted upload
    let (j, neg, data, sent) = accepted.last().unwrap().clone();
    let _ = endpoints[j].drain(Duration::from_millis(1));
    let mut srcs = vec![];
    // blocks 1..sent were acknowledged already; continue after them
    let rest_from = sent * neg.blk;
    let cont = Negotiated { ..neg.clone() };
    let res = if sent == 0 {
        wclient::upload(&endpoints[j], &cont, &data, None, &mut srcs)
    } else {
        // resend everything: the server ignores blocks it has and re-acknowledges; simplest conformant continuation is block sent+1..
        upload_from(&endpoints[j], &cont, &data, sent + 1, &mut srcs)
    };
    let _ = rest_from;
    match res {
        Ok(UploadEnd::Completed) => {}
        Ok(UploadEnd::Aborted(_)) => unreachable!(),
        Err(e) => {
            // the latest accepted upload could not complete: the second sentence of the property does not apply
            drop(srv);
            let _ = std::fs::remove_dir_all(&root);
            let _ = e;
            return Ok(vec!["latest-upload-did-not-complete"]);
        }
    }
    classes.push("latest-upload-completed");
    let at_completion = std::fs::read(recv.join(name)).ok();
    if at_completion.as_deref() != Some(&data[..]) {
        return Err(("content-at-completion".into(), format!("the most recently accepted upload completed ({} bytes) but the file holds {:?} bytes at that moment", data.len(), at_completion.map(|f| f.len()))));
    }
    if let Some(b) = c.later_unacceptable_wrq {
        // a request that is never accepted is no "more recently accepted upload": the completed file stays as it is
        let (n, v) = BAD_OPTS[b as usize % BAD_OPTS.len()];
        let extra = Client::new();
        let o = vec![("timeout".to_string(), "1".to_string()), (n.to_string(), v.to_string())];
        let o: Vec<(String, String)> = if n == "timeout" { vec![(n.to_string(), v.to_string())] } else { o };
        match wclient::start(&extra, srv.addr, true, name, &o, Duration::from_millis(600)) {
            Start::Accepted { .. } => {
                // the server chose to accept it after all (e.g. by ignoring the value): a newer accepted upload exists,
                // the sentence about the completed one no longer applies
                drop(srv);
                let _ = std::fs::remove_dir_all(&root);
                classes.push("later-wrq-with-unhonourable-option-was-accepted");
                return Ok(classes);
            }
            _ => classes.push("later-wrq-never-accepted"),
        }
    }
    let stale = accepted.len() - 1;
    if stale > 0 {
        // every stale worker gives up after 6 receive timeouts of 1 s
        std::thread::sleep(Duration::from_millis(7600));
        classes.push("waited-for-stale-workers");
    } else {
        std::thread::sleep(Duration::from_millis(50));
    }
    let fin = std::fs::read(recv.join(name)).ok();
    let status = srv.exit_status();
    let tail = srv.stderr_tail();
    drop(srv);
    let _ = std::fs::remove_dir_all(&root);
    if let Some(st) = status {
        return Err(("server-terminated".into(), format!("tftpd exited ({}): {}", st, tail)));
    }
    match fin {
        Some(f) if f == data => Ok(classes),
        Some(f) => Err(("completed-upload-altered".into(), format!("the completed upload ({} bytes) was altered afterwards: the file now holds {} bytes; {} stale accepted upload(s) for the same name", data.len(), f.len(), stale))),
        None => {
            if !c.keep && stale > 0 {
                Err((KNOWN_SIG.into(), format!("the most recently accepted upload of {} completed ({} bytes) and was removed again when {} earlier accepted upload(s) of the same name timed out (clean-on-error cleanup of the stale worker); overwrite={} single={}; server stderr: {}", name, data.len(), stale, c.overwrite, c.single, tail)))
            } else {
                Err(("completed-upload-removed".into(), format!("the completed upload was removed (keep-on-error={}, stale uploads {})", c.keep, stale)))
            }
        }
    }
}

fn upload_from(cl: &Client, neg: &Negotiated, data: &[u8], first: usize, srcs: &mut Vec<std::net::SocketAddr>) -> Result<UploadEnd, String> {
    // lock-step continuation (windowsize is 1: no windowsize option was sent)
    let n_blocks = data.len() / neg.blk + 1;
    for abs in first..=n_blocks {
        let s = (abs - 1) * neg.blk;
        let e = (s + neg.blk).min(data.len());
        let mut ok = false;
        for _try in 0..3 {
            cl.send(&crate::refcodec::data(abs as u16, &data[s..e]), neg.peer);
            let t0 = std::time::Instant::now();
            while t0.elapsed() < Duration::from_millis(1500) {
                if let Some((b, from)) = cl.recv(Duration::from_millis(300)) {
                    if let crate::refcodec::RDec::Ok(crate::refcodec::RPacket::Ack(k)) = crate::refcodec::decode(&b) {
                        if k == abs as u16 {
                            srcs.push(from);
                            ok = true;
                            break;
                        }
                    }
                }
            }
            if ok {
                break;
            }
        }
        if !ok {
            return Err(format!("no ACK {}", abs));
        }
    }
    Ok(UploadEnd::Completed)
}

pub fn judge(dir: &Path, c: &Case, obs: &mut Obs) -> Judge {
    obs.class(if c.overwrite { "overwrite" } else { "no-overwrite" });
    obs.class(if c.single { "single-port" } else { "multi-port" });
    obs.class_if(c.keep, "keep-on-error");
    let wrqs = c.acts.iter().filter(|a| matches!(a, Act::Wrq(_))).count();
    obs.class_if(wrqs >= 2, "duplicate-wrq-history");
    match run_case(dir, c) {
        Ok(classes) => {
            obs.nontrivial = classes.contains(&"waited-for-stale-workers") || classes.contains(&"duplicate-wrq-refused-exists");
            for k in classes {
                obs.class(k);
            }
            Ok(())
        }
        Err((sig, d)) if sig == "harness" => {
            obs.inconclusive = Some(d);
            Ok(())
        }
        Err((sig, d)) => {
            obs.nontrivial = true;
            viol!(sig, "{} | acts {:?}", d, c.acts)
        }
    }
}

pub fn strategy() -> BoxedStrategy<Case> {
    let act = prop_oneof![
        5 => (0u8..3).prop_map(Act::Wrq),
        2 => ((0u8..3), (0u8..4)).prop_map(|(j, k)| Act::Partial(j, k)),
        2 => prop_oneof![0u16..300, 450u16..650].prop_map(Act::Pause),
    ];
    (prop_oneof![3 => Just(true), 1 => Just(false)], any::<bool>(), prop_oneof![4 => Just(false), 1 => Just(true)], proptest::collection::vec(act, 1..6), 0usize..400, any::<u64>())
        .prop_map(|(overwrite, single, keep, mut acts, len, seed)| {
            if !acts.iter().any(|a| matches!(a, Act::Wrq(_))) {
                acts.insert(0, Act::Wrq(0));
            }
            Case { overwrite, single, keep, acts, len, seed, later_unacceptable_wrq: if seed % 3 == 0 { Some((seed / 3 % 5) as u8) } else { None } }
        })
        .boxed()
}

fn fixed_cases() -> Vec<Case> {
    let mut out = vec![];
    for overwrite in [true, false] {
        for single in [false, true] {
            for keep in [false, true] {
                // a retransmitted WRQ from the same endpoint, and a second client for the same name
                out.push(Case { overwrite, single, keep, acts: vec![Act::Wrq(0), Act::Wrq(0)], len: 100, seed: 1, later_unacceptable_wrq: None });
                out.push(Case { overwrite, single, keep, acts: vec![Act::Wrq(0), Act::Partial(0, 1), Act::Wrq(1)], len: 200, seed: 2, later_unacceptable_wrq: None });
                // one completed upload, then a WRQ for the same name that is never accepted
                out.push(Case { overwrite, single, keep, acts: vec![Act::Wrq(0)], len: 150, seed: 5, later_unacceptable_wrq: Some(if single { 0 } else { 2 }) });
                if !overwrite && !keep {
                    // the duplicate arrives after the first worker has certainly created its (still empty) file
                    out.push(Case { overwrite, single, keep, acts: vec![Act::Wrq(0), Act::Pause(500), Act::Wrq(0)], len: 100, seed: 3, later_unacceptable_wrq: None });
                    out.push(Case { overwrite, single, keep, acts: vec![Act::Wrq(0), Act::Pause(500), Act::Wrq(1)], len: 100, seed: 4, later_unacceptable_wrq: None });
                }
            }
        }
    }
    out
}

// ---- aborted uploads against the real server (options travel through the listener: tsize, blksize, windowsize) ----

#[derive(Clone, Debug, Serialize, Deserialize)]
pub struct AbortCase {
    pub single: bool,
    pub keep: bool,
    pub with_tsize: bool,
    pub blk: u32,
    pub ws: u16,
    pub len: usize,
    /// blocks sent before the abort
    pub after: usize,
    /// true = the client sends ERROR; false = it falls silent (the server gives up after 6 timeouts of 1 s)
    pub by_error: bool,
    /// the target exists before the request and the server runs with --overwrite
    #[serde(default)]
    pub overwrite_existing: bool,
}

fn run_abort(dir: &Path, c: &AbortCase) -> Result<Vec<&'static str>, (String, String)> {
    let root = dir.join("c13a");
    let _ = std::fs::remove_dir_all(&root);
    let recv = root.join("recv");
    std::fs::create_dir_all(&recv).unwrap();
    let mut args = vec![wire::s("-d"), recv.to_string_lossy().to_string()];
    if c.single {
        args.push(wire::s("-s"));
    }
    if c.keep {
        args.push(wire::s("--keep-on-error"));
    }
    if c.overwrite_existing {
        args.push(wire::s("--overwrite"));
        std::fs::write(recv.join("a.bin"), vec![0x33u8; c.len + 777]).unwrap();
    }
    let mut srv = match Server::start(&args, &root) {
        Ok(s) => s,
        Err(StartError::Exited(code, e)) => return Err(("harness".into(), format!("tftpd exited at start-up with {}: {}", code, e))),
        Err(StartError::Harness(e)) => return Err(("harness".into(), e)),
    };
    let data = content(13, c.len);
    let mut opts = vec![("timeout".to_string(), "1".to_string()), ("blksize".to_string(), c.blk.to_string()), ("windowsize".to_string(), c.ws.to_string())];
    if c.with_tsize {
        opts.push(("tsize".to_string(), c.len.to_string()));
    }
    let cl = Client::new();
    let neg = match wclient::start(&cl, srv.addr, true, "a.bin", &opts, Duration::from_secs(3)) {
        Start::Accepted { neg, .. } => neg,
        other => return Err(("harness".into(), format!("upload not accepted: {:?}", other))),
    };
    let nb = data.len() / neg.blk + 1;
    let k = c.after.min(nb - 1);
    // whole windows only, so that everything sent is acknowledged (and therefore flushed)
    let k = k - k % neg.ws;
    let mut srcs = vec![];
    let mut sent = 0usize;
    while sent < k {
        for b in (sent + 1)..=(sent + neg.ws) {
            let s0 = (b - 1) * neg.blk;
            cl.send(&crate::refcodec::data(b as u16, &data[s0..s0 + neg.blk]), neg.peer);
        }
        sent += neg.ws;
        match cl.recv(Duration::from_secs(3)) {
            Some((b, f)) if crate::refcodec::decode(&b) == crate::refcodec::RDec::Ok(crate::refcodec::RPacket::Ack(sent as u16)) => srcs.push(f),
            other => return Err(("harness".into(), format!("no ACK {} during the prefix: {:?}", sent, other.map(|(b, _)| hex(&b))))),
        }
    }
    if c.by_error {
        cl.send(&crate::refcodec::error(0, "client aborts"), neg.peer);
        std::thread::sleep(Duration::from_millis(150));
    } else {
        std::thread::sleep(Duration::from_millis(7600));
    }
    let on_disk = std::fs::read(recv.join("a.bin")).ok();
    let status = srv.exit_status();
    let tail = srv.stderr_tail();
    drop(srv);
    let _ = std::fs::remove_dir_all(&root);
    if let Some(st) = status {
        return Err(("server-terminated".into(), format!("tftpd exited ({}): {}", st, tail)));
    }
    let sent_bytes = k * neg.blk;
    match (c.keep, on_disk) {
        (false, None) => Ok(vec!["wire-abort-cleaned"]),
        (false, Some(f)) => Err(("partial-file-not-removed".into(), format!("the upload was aborted after {} blocks ({}) with clean-on-error in force but a file of {} bytes remains; stderr: {}", k, if c.by_error { "peer ERROR" } else { "silence" }, f.len(), tail))),
        (true, None) => Err(("kept-file-removed".into(), format!("the upload was aborted after {} blocks with --keep-on-error but the file is gone", k))),
        (true, Some(f)) => {
            if f.len() <= data.len() && f == data[..f.len()] && f.len() >= sent_bytes {
                Ok(vec!["wire-abort-kept-prefix"])
            } else {
                Err(("kept-file-not-a-prefix".into(), format!("the upload was aborted after {} acknowledged blocks ({} bytes) with --keep-on-error; the kept file has {} bytes and is {}a prefix of the {} bytes the client would have sent (tsize option {})", k, sent_bytes, f.len(), if f.len() <= data.len() && f == data[..f.len()] { "" } else { "not " }, data.len(), c.with_tsize)))
            }
        }
    }
}

pub fn judge_abort(dir: &Path, c: &AbortCase, obs: &mut Obs) -> Judge {
    obs.class(if c.keep { "wire-abort-keep" } else { "wire-abort-clean" });
    obs.class_if(c.with_tsize, "wire-abort-with-tsize");
    obs.class_if(c.overwrite_existing, "wire-abort-overwriting-existing-file");
    obs.nontrivial = true;
    let r = match run_abort(dir, c) {
        Err((sig, d)) if sig != "harness" => match run_abort(dir, c) {
            Ok(k) => {
                obs.inconclusive = Some(format!("failed once ({}: {}), passed on the isolated re-run", sig, d));
                Ok(k)
            }
            other => other,
        },
        other => other,
    };
    match r {
        Ok(k) => {
            for x in k {
                obs.class(x);
            }
            Ok(())
        }
        Err((sig, d)) if sig == "harness" => {
            obs.inconclusive = Some(d);
            Ok(())
        }
        Err((sig, d)) => viol!(format!("wire-{}", sig), "{} | {:?}", d, c),
    }
}

fn abort_cases(thorough: bool) -> Vec<AbortCase> {
    let mut out = vec![];
    for single in [false, true] {
        for keep in [false, true] {
            for with_tsize in [false, true] {
                for (blk, ws, len, after) in [(512u32, 1u16, 3000usize, 0usize), (512, 1, 3000, 2), (64, 2, 1000, 4), (1024, 3, 9000, 3)] {
                    out.push(AbortCase { single, keep, with_tsize, blk, ws, len, after, by_error: true, overwrite_existing: false });
                    if !with_tsize {
                        out.push(AbortCase { single, keep, with_tsize, blk, ws, len, after, by_error: true, overwrite_existing: true });
                    }
                }
                if thorough || (single && with_tsize) {
                    out.push(AbortCase { single, keep, with_tsize, blk: 512, ws: 1, len: 3000, after: 2, by_error: false, overwrite_existing: false });
                }
            }
        }
    }
    out
}

pub fn run_wire(ctx: &Ctx) {
    let dirs = DirPool::new(ctx, "c13w");
    let aborts = abort_cases(ctx.tier == Tier::Thorough);
    enumerate(ctx, "wire-aborted-uploads", &aborts, false, |c, o| dirs.with(|d| judge_abort(d, c, o)));
    let fixed = fixed_cases();
    enumerate(ctx, "wire-duplicate-wrq-grid", &fixed, false, |c, o| dirs.with(|d| judge(d, c, o)));
    explore_n(ctx, "wire-duplicate-wrq", ctx.tier.pick(32, 1200), shards(), 6, strategy, |c: &Case, o| dirs.with(|d| judge(d, c, o)));
}

pub fn replay(ctx: &Ctx, part: &str, case: &Value) -> bool {
    let dirs = DirPool::new(ctx, "c13w");
    match part {
        "wire-duplicate-wrq" | "wire-duplicate-wrq-grid" => replay_one(ctx, part, case, |c: &Case, o| dirs.with(|d| judge(d, c, o))),
        "wire-aborted-uploads" => replay_one(ctx, part, case, |c: &AbortCase, o| dirs.with(|d| judge_abort(d, c, o))),
        _ => {
            ctx.say(&format!("unknown part {}", part));
            std::process::exit(2)
        }
    }
}
