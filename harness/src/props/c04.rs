//! C04 Loss tolerance (sim, fault enumeration).

use super::simcommon::*;
use crate::common::*;
use crate::sim::{self, After, Dir, Fate, Role, Scenario};
use crate::simgen;
use crate::viol;
use proptest::prelude::*;
use serde_json::Value;
use std::path::Path;

pub const BUDGET: usize = 6;

/// faults that are far enough apart for the transfer to have made progress in between
pub fn isolated(sc: &Scenario) -> bool {
    let gap = 3 * (sc.ws as usize + 1) + 2;
    let mut last: Option<usize> = None;
    for (i, f) in sc.fates.iter().enumerate() {
        if *f == Fate::Deliver {
            continue;
        }
        if !matches!(f, Fate::Drop | Fate::Dup) {
            return false;
        }
        if let Some(l) = last {
            if i - l < gap {
                return false;
            }
        }
        last = Some(i);
    }
    true
}

pub fn judge(dir: &Path, sc: &Scenario, obs: &mut Obs) -> Judge {
    // precondition: fewer faults than the retry budget, so that no conformant
    // implementation can see 6 failed receive attempts in a row (every fault costs at most one),
    // or any number of drop/dup faults that are at least three windows of datagrams apart
    if sc.nfaults() >= BUDGET && !isolated(sc) {
        obs.discard = Some("six or more faults: outside the property's precondition");
        return Ok(());
    }
    let (r, _findings, fa) = run_and_judge(dir, sc, obs, &[])?;
    obs.nontrivial = !r.hits.is_empty();
    obs.class_if(r.hits.len() >= BUDGET, "six-or-more-isolated-faults-hit");
    for (_, f, d, _) in &r.hits {
        obs.class(match (f, d) {
            (Fate::Drop, Dir::ToPeer) => "drop-from-worker",
            (Fate::Drop, Dir::ToWorker) => "drop-to-worker",
            (Fate::Dup, _) => "dup",
            (Fate::Swap, _) => "swap",
            (Fate::Late, _) => "late",
            _ => "deliver",
        });
    }
    let n = sc.nblocks();
    match sc.role {
        Role::Sender => {
            let peer_ok = r.peer_done && r.peer_data == r.file;
            if !peer_ok {
                viol!("download-incomplete", "the conformant client did not end with the complete file (done={}, {} of {} bytes) after {} fault(s) {:?}; worker completed={} timeouts={} | {}", r.peer_done, r.peer_data.len(), r.file.len(), r.hits.len(), hits(&r.hits), fa.completed, fa.timeouts, describe(sc));
            }
            let worker_ok = fa.completed && fa.ended_cleanly;
            if !worker_ok {
                // RFC 1350: the last ACK was lost and the client does not dally
                let final_ack = crate::refcodec::ack(sim::wire(n));
                let last_ack_faulted = r.hits.iter().any(|(_, f, d, b)| *d == Dir::ToWorker && *f != Fate::Dup && b.as_slice() == &final_ack[..]);
                if !(last_ack_faulted && !sc.dally) {
                    viol!("download-failed", "the sending worker did not complete (completed={}, clean end={}) after {} fault(s) {:?}, {} timeouts (max {} failed receives in one window) | {}", fa.completed, fa.ended_cleanly, r.hits.len(), hits(&r.hits), fa.timeouts, fa.max_failed_per_window, describe(sc));
                }
                obs.class("rfc1350-final-ack-exception");
            }
        }
        Role::Receiver => {
            let worker_ok = fa.completed && fa.ended_cleanly && r.file_after.as_deref() == Some(&r.file[..]);
            if !worker_ok {
                viol!("upload-failed", "the receiving worker did not complete with the full file (completed={}, file {:?} of {} bytes) after {} fault(s) {:?}, {} timeouts (max {} failed receives in one window) | {}", fa.completed, r.file_after.as_ref().map(|f| f.len()), r.file.len(), r.hits.len(), hits(&r.hits), fa.timeouts, fa.max_failed_per_window, describe(sc));
            }
            if !r.peer_done {
                // allowed only if the worker's final ACK was lost (the server never dallies)
                let final_ack = crate::refcodec::ack(sim::wire(n));
                let last_ack_faulted = r.hits.iter().any(|(_, f, d, b)| *d == Dir::ToPeer && *f != Fate::Dup && b.as_slice() == &final_ack[..]);
                if !last_ack_faulted {
                    viol!("upload-sender-stuck", "the conformant uploading client never saw its final block acknowledged although the final ACK was not lost; faults {:?} | {}", hits(&r.hits), describe(sc));
                }
                obs.class("rfc1350-final-ack-exception");
            }
        }
    }
    Ok(())
}

fn hits(h: &[(usize, Fate, Dir, Vec<u8>)]) -> Vec<String> {
    h.iter().map(|(i, f, d, b)| format!("#{} {:?} {:?} {}", i, f, d, hex(b))).collect()
}

fn box_configs(wmax: u16) -> Vec<(Role, u16, usize, usize)> {
    // (role, ws, blk, file_len)
    let blk = 8usize;
    let mut out = vec![];
    for role in [Role::Sender, Role::Receiver] {
        for w in 1..=wmax {
            let wl = w as usize;
            let mut blocks: Vec<usize> = vec![1, wl.saturating_sub(1).max(1), wl, wl + 1, 2 * wl, 2 * wl + 1];
            blocks.sort();
            blocks.dedup();
            for nb in blocks {
                // nb = number of DATA blocks; last block empty / short / full-1
                for last in [0usize, 3, blk - 1] {
                    let len = (nb - 1) * blk + last;
                    out.push((role, w, blk, len));
                }
            }
        }
    }
    out
}

fn mk(role: Role, ws: u16, blk: usize, len: usize, fates: Vec<Fate>, dally: bool, gap_ack: bool) -> Scenario {
    let mut sc = Scenario::lossless(role, blk, ws, len, 7 + len as u64 + ws as u64);
    sc.fates = fates;
    sc.dally = dally;
    sc.gap_ack = gap_ack;
    sc
}

/// all assignments of <= f faults over the first m emission slots of each configuration
fn exhaustive(ctx: &Ctx, dir: &Path, f: usize, wmax: u16) -> Vec<Scenario> {
    let _ = ctx;
    let kinds = [Fate::Drop, Fate::Dup, Fate::Swap, Fate::Late];
    let mut out = vec![];
    for (role, ws, blk, len) in box_configs(wmax) {
        // emission count of the lossless run bounds the slots that matter
        let base = mk(role, ws, blk, len, vec![], true, true);
        let r = sim::run(&base, dir);
        let m = r.emissions + 2;
        for style in 0..2 {
            let (dally, gap) = if style == 0 { (true, true) } else { (true, false) };
            // one fault
            for p in 0..m {
                for k in kinds {
                    let mut fates = vec![Fate::Deliver; p + 1];
                    fates[p] = k;
                    out.push(mk(role, ws, blk, len, fates, dally, gap));
                }
            }
            if f >= 2 {
                for p in 0..m {
                    for q in (p + 1)..(m + 2) {
                        for k1 in kinds {
                            for k2 in kinds {
                                let mut fates = vec![Fate::Deliver; q + 1];
                                fates[p] = k1;
                                fates[q] = k2;
                                out.push(mk(role, ws, blk, len, fates, dally, gap));
                            }
                        }
                    }
                }
            }
            if f >= 3 && style == 0 {
                let k3 = [Fate::Drop, Fate::Dup];
                for p in 0..m {
                    for q in (p + 1)..(m + 1) {
                        for s in (q + 1)..(m + 2) {
                            for k1 in k3 {
                                for k2 in k3 {
                                    for kk in k3 {
                                        let mut fates = vec![Fate::Deliver; s + 1];
                                        fates[p] = k1;
                                        fates[q] = k2;
                                        fates[s] = kk;
                                        out.push(mk(role, ws, blk, len, fates, dally, gap));
                                    }
                                }
                            }
                        }
                    }
                }
            }
        }
    }
    out
}

pub fn strategy() -> BoxedStrategy<Scenario> {
    (
        prop_oneof![Just(Role::Sender), Just(Role::Receiver)],
        simgen::geometry(40).prop_map(|(blk, ws, len)| (blk, if ws > 16 && ws < 65534 { ws % 16 + 1 } else { ws }, len)),
        any::<u64>(),
        any::<bool>(),
        simgen::fates(60, 5),
        (any::<bool>(), prop_oneof![4 => Just(true), 1 => Just(false)]),
    )
        .prop_map(|(role, geo, seed, hs, fates, (gap, dally))| simgen::scenario(role, geo, seed, hs, fates, vec![], After::Honest, (gap, dally, true)))
        .boxed()
}

/// many faults, never two within three windows of datagrams: the retry budget is about consecutive failures
pub fn isolated_strategy() -> BoxedStrategy<Scenario> {
    (prop_oneof![Just(Role::Sender), Just(Role::Receiver)], 1u16..=4, 20usize..60, 0usize..8, any::<u64>(), proptest::collection::vec((0usize..6, prop_oneof![3 => Just(Fate::Drop), 1 => Just(Fate::Dup)]), 6..12), any::<bool>())
        .prop_map(|(role, ws, blocks, rem, seed, faults, gap_ack)| {
            let blk = 8usize;
            let gap = 3 * (ws as usize + 1) + 2;
            let mut fates = vec![];
            let mut pos = 1usize;
            for (extra, f) in faults {
                pos += gap + extra;
                if fates.len() <= pos {
                    fates.resize(pos + 1, Fate::Deliver);
                }
                fates[pos] = f;
            }
            let mut sc = Scenario::lossless(role, blk, ws, blocks * blk + rem, seed);
            sc.fates = fates;
            sc.gap_ack = gap_ack;
            sc
        })
        .boxed()
}

pub fn run(ctx: &Ctx) {
    sim::init();
    ctx.set_level("fault_enumeration");
    ctx.set_rule("both worker roles against a conformant model peer behind a fault network; faults = drop, duplicate, swap with the next datagram of the same direction, delay past one timeout, placed on any data-phase datagram of either direction (the handshake reply is never faulted). Exhaustive: every placement of 1 and 2 faults (thorough: also 3 drop/dup faults) over all emission slots of the transfer for windowsize 1..4 (thorough 1..5), 1/W-1/W/W+1/2W/2W+1 blocks with an empty/short/almost-full last block, two peer styles (RFC 7440 gap-ACK, silent-until-timeout). Random: up to 5 faults over the first 60 datagrams, windowsize up to 16 and 65534/65535, blksize 8..65464, non-dallying client. A third part places 6..11 drop/dup faults at least three windows of datagrams apart (the budget is about consecutive failures, not failures per transfer). A wire part loses 1..3 (thorough 1..5) consecutive copies of one DATA / ACK against the real tftpd with a negotiated timeout of 1 s (both port modes, both directions): the transfer must still complete within 14 s; finally the real tftpc talks to the real tftpd (single-port) through a UDP relay that drops one chosen data-phase datagram in either direction (timeout 1 s) - both binaries' own socket timeouts are in play. Oracle: the model peer ends with the complete, correct file and the worker ends successfully; exception only when the final ACK itself was faulted and its sender does not dally. Non-trivial = at least one fault actually hit a datagram; distinct = distinct (scenario, trace shape).");
    ctx.assume("precondition 'fewer than 6 consecutive failed receive attempts' is guaranteed by construction: at most 5 faults per transfer and a model peer whose retransmission timer equals the worker's timeout, so each fault costs at most one receive timeout; scenarios with >=6 faults are discarded, not judged");
    ctx.assume("model peer: acknowledges a duplicate of the last acknowledged block once per retransmitted window, repeats its last ACK / window on its own timeout (RFC 1350 conformant)");
    let dirs = DirPool::new(ctx, "c04");
    let f = ctx.tier.pick(2, 3);
    let wmax = ctx.tier.pick(4, 5);
    let cases = dirs.with(|d| exhaustive(ctx, d, f, wmax));
    ctx.extra("exhaustive_fault_budget", serde_json::json!(f));
    ctx.extra("exhaustive_max_windowsize", serde_json::json!(wmax));
    enumerate(ctx, "exh-fault-placements", &cases, true, |c, o| dirs.with(|d| judge(d, c, o)));
    explore(ctx, "random", ctx.tier.pick(40_000, 1_000_000), strategy, |c: &Scenario, o| dirs.with(|d| judge(d, c, o)));
    explore(ctx, "isolated-faults", ctx.tier.pick(20_000, 400_000), isolated_strategy, |c: &Scenario, o| dirs.with(|d| judge(d, c, o)));
    super::c04w::run_wire(ctx);
}

pub fn replay(ctx: &Ctx, part: &str, case: &Value) -> bool {
    if part.starts_with("wire-") {
        return super::c04w::replay(ctx, part, case);
    }
    sim::init();
    let dirs = DirPool::new(ctx, "c04");
    replay_one(ctx, part, case, |c: &Scenario, o| dirs.with(|d| judge(d, c, o)))
}
