//! C09 Option negotiation (wire).

use crate::common::*;
use crate::refcodec::{self, RDec, ROpt, RPacket};
use crate::viol;
use crate::wire::{self, Client, Server, StartError};
use proptest::prelude::*;
use serde::{Deserialize, Serialize};
use serde_json::Value;
use std::net::SocketAddr;
use std::path::Path;
use std::time::{Duration, Instant};

#[derive(Clone, Debug, Serialize, Deserialize)]
pub struct Case {
    pub single: bool,
    pub write: bool,
    pub file_len: usize,
    /// (name, value) in request order; recognised names appear at most once
    pub opts: Vec<(String, String)>,
    /// measure the first retransmission instead of acknowledging the first burst at once
    pub timing: bool,
    pub seed: u64,
    /// a download whose window (windowsize x blksize) exceeds the default socket buffer; the model client enlarges its receive buffer
    #[serde(default)]
    pub big_burst: bool,
}

struct Expect {
    recognised: Vec<(ROpt, u64)>,
    unhonourable: Option<String>,
    /// per option: the largest requested value the server can honour (an option may be repeated)
    honourable_max: Vec<(ROpt, u64)>,
    /// options that occur more than once in the request
    repeated: Vec<ROpt>,
    /// a tsize beyond 2^64-1 was sent (WRQ only): cannot be echoed as a number
    oversize_tsize: Option<String>,
}

fn expectations(c: &Case) -> Expect {
    let mut recognised = vec![];
    let mut unhonourable = None;
    let mut honourable_max: Vec<(ROpt, u64)> = vec![];
    let mut repeated = vec![];
    let mut oversize_tsize = None;
    for (n, v) in &c.opts {
        if let Some(o) = ROpt::from_ascii_ci(n.as_bytes()) {
            if recognised.iter().any(|(ro, _)| *ro == o) && !repeated.contains(&o) {
                repeated.push(o);
            }
            let Ok(val) = v.parse::<u64>() else {
                // only generated for tsize: a decimal number beyond 2^64-1
                recognised.push((o, u64::MAX));
                oversize_tsize = Some(v.clone());
                if unhonourable.is_none() {
                    unhonourable = Some(format!("{}={}", o.name(), v));
                }
                continue;
            };
            recognised.push((o, val));
            let bad = match o {
                ROpt::Timeout => val == 0,
                ROpt::Windowsize => val == 0 || val > 65535,
                ROpt::Blksize => !(8..=65464).contains(&val),
                ROpt::Tsize => false,
            };
            if bad {
                if unhonourable.is_none() {
                    unhonourable = Some(format!("{}={}", o.name(), val));
                }
            } else if let Some(e) = honourable_max.iter_mut().find(|(ro, _)| *ro == o) {
                e.1 = e.1.max(val);
            } else {
                honourable_max.push((o, val));
            }
        }
    }
    Expect { recognised, unhonourable, honourable_max, repeated, oversize_tsize }
}

struct Out {
    classes: Vec<&'static str>,
}

fn fail(sig: &str, detail: String) -> Result<Out, (String, String)> {
    Err((sig.to_string(), detail))
}

fn run_case(dir: &Path, c: &Case) -> Result<Out, (String, String)> {
    let mut out = Out { classes: vec![] };
    let root = dir.join("c09");
    let _ = std::fs::remove_dir_all(&root);
    let send = root.join("send");
    let recv = root.join("recv");
    std::fs::create_dir_all(&send).unwrap();
    std::fs::create_dir_all(&recv).unwrap();
    let file = content(c.seed, c.file_len);
    std::fs::write(send.join("f.bin"), &file).unwrap();
    let mut args = vec![wire::s("-sd"), send.to_string_lossy().to_string(), wire::s("-rd"), recv.to_string_lossy().to_string()];
    if c.single {
        args.push(wire::s("-s"));
    }
    let mut srv = match Server::start(&args, &root) {
        Ok(s) => s,
        Err(StartError::Exited(code, e)) => return fail("harness", format!("tftpd exited at start-up with {}: {}", code, e)),
        Err(StartError::Harness(e)) => return fail("harness", e),
    };
    let mut res = converse(&mut srv, c, &file, &recv, &mut out);
    // the same name once more after the file has been replaced on disk: an acknowledged tsize is the size the file has NOW
    let asked_tsize = c.opts.iter().any(|(n, v)| n.eq_ignore_ascii_case("tsize") && v.parse::<u64>().is_ok());
    if res.is_ok() && !c.write && !c.big_burst && asked_tsize && expectations(c).unhonourable.is_none() && c.seed % 2 == 0 {
        let fresh = content(c.seed ^ 0x7517e, (c.file_len + 1 + (c.seed as usize / 2) % 777) % 3000);
        std::fs::write(send.join("f.bin"), &fresh).unwrap();
        let cl = Client::new();
        cl.send(&refcodec::encode_request_raw(false, b"f.bin", b"octet", &[(b"tsize".to_vec(), b"0".to_vec())]), srv.addr);
        match recv_dec(&cl, Duration::from_secs(3)) {
            Some((RDec::Ok(RPacket::Oack(list)), _, from)) => {
                let ts = list.iter().find(|(o, _)| *o == ROpt::Tsize).map(|(_, v)| *v);
                if ts != Some(fresh.len() as u64) {
                    res = Err(("oack-tsize".into(), format!("second RRQ after the file was replaced on disk ({} -> {} bytes): OACK {:?}", c.file_len, fresh.len(), list)));
                } else {
                    out.classes.push("tsize-after-file-replaced");
                }
                // decline the transfer politely
                cl.send(&refcodec::error(0, "size query only"), from);
            }
            other => res = Err(("no-oack".into(), format!("second RRQ with tsize=0 after the file was replaced: {:?}", other.map(|(d, _, _)| d)))),
        }
    }
    let tail = srv.stderr_tail();
    drop(srv);
    let _ = std::fs::remove_dir_all(&root);
    match res {
        Ok(()) => Ok(out),
        Err((s, d)) => Err((s, format!("{} | server stderr: {}", d, tail))),
    }
}

fn recv_dec(cl: &Client, wait: Duration) -> Option<(RDec, Vec<u8>, SocketAddr)> {
    cl.recv(wait).map(|(b, from)| (refcodec::decode(&b), b, from))
}

fn converse(srv: &mut Server, c: &Case, file: &[u8], recv_dir: &Path, out: &mut Out) -> Result<(), (String, String)> {
    let ex = expectations(c);
    let cl = Client::new();
    if c.big_burst {
        let eff = cl.force_rcvbuf(160 << 20) as u64;
        // kernel accounting per datagram is payload + ~2.3 KB of bookkeeping (more for large datagrams: page granularity)
        let blk_req = c.opts.iter().find(|(n, _)| n == "blksize").and_then(|(_, v)| v.parse::<u64>().ok()).unwrap_or(512);
        let ws_req = c.opts.iter().find(|(n, _)| n == "windowsize").and_then(|(_, v)| v.parse::<u64>().ok()).unwrap_or(1);
        let blocks = (c.file_len as u64 / blk_req + 1).min(ws_req);
        let need = blocks * (blk_req * 2 + 2304);
        if eff < need {
            out.classes.push("big-burst-skipped-no-cap-net-admin");
            return Ok(());
        }
        out.classes.push("big-burst");
    }
    let o: Vec<(Vec<u8>, Vec<u8>)> = c.opts.iter().map(|(n, v)| (n.as_bytes().to_vec(), v.as_bytes().to_vec())).collect();
    let name = if c.write { "up.bin" } else { "f.bin" };
    let req = refcodec::encode_request_raw(c.write, name.as_bytes(), b"octet", &o);
    cl.send(&req, srv.addr);
    let reply_required = ex.unhonourable.is_none();
    let first = recv_dec(&cl, if reply_required { Duration::from_secs(3) } else { Duration::from_millis(250) });
    let Some((dec, raw, from)) = first else {
        if reply_required {
            return Err(("no-reply".into(), format!("no reply within 3 s to {} {:?}", if c.write { "WRQ" } else { "RRQ" }, c.opts)));
        }
        out.classes.push("unhonourable-silence");
        return Ok(());
    };
    if c.single && from.port() != srv.port {
        return Err(("reply-port".into(), format!("single-port mode: first reply came from port {} not {}", from.port(), srv.port)));
    }
    // negotiated parameters
    let mut blk = 512usize;
    let mut ws = 1usize;
    let mut timeout_s = 5u64;
    let mut timeout_acked = false;
    match &dec {
        RDec::Ok(RPacket::Oack(list)) => {
            out.classes.push("oack");
            if ex.recognised.is_empty() {
                return Err(("oack-without-options".into(), format!("OACK {:?} although the request carries no recognised option ({:?})", list, c.opts)));
            }
            let mut seen = vec![];
            for (o, v) in list {
                if seen.contains(o) && !ex.repeated.contains(o) {
                    return Err(("oack-duplicate".into(), format!("OACK lists {} twice: {:?}", o.name(), list)));
                }
                seen.push(*o);
                let Some((_, first_req_v)) = ex.recognised.iter().find(|(ro, _)| ro == o) else {
                    return Err(("oack-unrequested".into(), format!("OACK lists {}={} which was not requested ({:?})", o.name(), v, c.opts)));
                };
                // (a repeated option: judged against the largest value the server could honour)
                let req_v = match ex.honourable_max.iter().find(|(ro, _)| ro == o) {
                    Some((_, m)) => m,
                    None if *o == ROpt::Tsize => first_req_v,
                    None => return Err(("acknowledged-unhonourable".into(), format!("OACK {:?} acknowledges {} although no requested value of it can be honoured ({:?})", list, o.name(), c.opts))),
                };
                match o {
                    ROpt::Blksize => {
                        if *v > *req_v || !(8..=65464).contains(v) {
                            return Err(("oack-blksize".into(), format!("OACK blksize {} for requested {} ", v, req_v)));
                        }
                        blk = *v as usize;
                    }
                    ROpt::Windowsize => {
                        if *v > *req_v || !(1..=65535).contains(v) {
                            return Err(("oack-windowsize".into(), format!("OACK windowsize {} for requested {}", v, req_v)));
                        }
                        ws = *v as usize;
                    }
                    ROpt::Timeout => {
                        if *v > *req_v || *v == 0 {
                            return Err(("oack-timeout".into(), format!("OACK timeout {} for requested {}", v, req_v)));
                        }
                        timeout_s = *v;
                        timeout_acked = true;
                    }
                    ROpt::Tsize => {
                        if c.write && ex.oversize_tsize.is_some() {
                            return Err(("oack-tsize".into(), format!("OACK tsize {} does not echo the client's value {}", v, ex.oversize_tsize.as_ref().unwrap())));
                        }
                        let want = if c.write { *req_v } else { file.len() as u64 };
                        if *v != want {
                            return Err(("oack-tsize".into(), format!("OACK tsize {} but {} is {}", v, if c.write { "the client's value" } else { "the file size" }, want)));
                        }
                    }
                }
            }
            if let Some(u) = &ex.unhonourable {
                // acceptable only if the offending option is omitted (a repeated option: its values were judged above)
                let (on, _) = u.split_once('=').unwrap();
                if list.iter().any(|(o, _)| o.name() == on && !ex.honourable_max.iter().any(|(ho, _)| ho == o)) {
                    return Err(("acknowledged-unhonourable".into(), format!("OACK {:?} acknowledges {} which the server cannot honour", list, u)));
                }
            }
        }
        RDec::Ok(RPacket::Error { .. }) => {
            if reply_required {
                return Err(("unexpected-error".into(), format!("request {:?} was answered with {:?}", c.opts, dec)));
            }
            out.classes.push("unhonourable-error");
            return Ok(());
        }
        RDec::Ok(RPacket::Data { block, .. }) if !c.write => {
            if !ex.recognised.is_empty() && ex.unhonourable.is_none() {
                return Err(("no-oack".into(), format!("request with recognised options {:?} was answered with DATA {} instead of an OACK", ex.recognised, block)));
            }
            out.classes.push("plain-data1");
        }
        RDec::Ok(RPacket::Ack(0)) if c.write => {
            if !ex.recognised.is_empty() && ex.unhonourable.is_none() {
                return Err(("no-oack".into(), format!("request with recognised options {:?} was answered with ACK 0 instead of an OACK", ex.recognised)));
            }
            out.classes.push("plain-ack0");
        }
        // an OACK that echoes a number beyond 2^64-1 verbatim is truthful (the reference decoder cannot represent it)
        _ if ex.oversize_tsize.is_some() && raw.len() > 2 && raw[0] == 0 && raw[1] == 6 && raw.windows(ex.oversize_tsize.as_ref().unwrap().len()).any(|w| w == ex.oversize_tsize.as_ref().unwrap().as_bytes()) => {
            out.classes.push("oversize-tsize-echoed");
            return Ok(());
        }
        other => return Err(("bad-first-reply".into(), format!("first reply to {:?} is {:?} ({})", c.opts, other, hex(&raw)))),
    }
    if !ex.repeated.is_empty() || ex.oversize_tsize.is_some() {
        // the acknowledged values were judged; which of two occurrences governs the transfer is not specified
        out.classes.push("repeated-option-answered");
        return Ok(());
    }
    let n_blocks = file.len() / blk + 1;
    if c.write {
        upload(&cl, from, c, file, blk, ws, recv_dir)
    } else {
        let first_data = match dec {
            RDec::Ok(RPacket::Data { block, data }) => Some((block, data)),
            _ => None,
        };
        download(&cl, from, c, file, blk, ws, n_blocks, timeout_s, timeout_acked, first_data, out)
    }
}

#[allow(clippy::too_many_arguments)]
fn download(cl: &Client, peer: SocketAddr, c: &Case, file: &[u8], blk: usize, ws: usize, n_blocks: usize, timeout_s: u64, timeout_acked: bool, first_data: Option<(u16, Vec<u8>)>, out: &mut Out) -> Result<(), (String, String)> {
    let mut got: Vec<u8> = vec![];
    let mut next = 1usize; // next block expected
    let mut pending: Vec<(u16, Vec<u8>)> = vec![];
    if let Some(fd) = first_data {
        pending.push(fd);
    } else {
        cl.send(&refcodec::ack(0), peer);
    }
    let mut first_burst = true;
    loop {
        let expect = ws.min(n_blocks + 1 - next);
        // collect the burst
        let t_burst = Instant::now();
        let deadline = t_burst + Duration::from_secs(3);
        while pending.len() < expect && Instant::now() < deadline {
            if let Some((d, raw, _)) = recv_dec(cl, Duration::from_millis(200)) {
                match d {
                    RDec::Ok(RPacket::Data { block, data }) => pending.push((block, data)),
                    other => return Err(("bad-reply".into(), format!("during the download: {:?} ({})", other, hex(&raw)))),
                }
            }
        }
        if pending.len() < expect {
            return Err(("short-burst".into(), format!("expected a burst of {} DATA (windowsize {}, {} blocks left) but only {} arrived within 3 s", expect, ws, n_blocks + 1 - next, pending.len())));
        }
        // nothing beyond the window may follow
        let extra_wait = if first_burst { Duration::from_millis(80) } else { Duration::from_millis(5) };
        let t_first_burst_done = Instant::now();
        if let Some((d, _, _)) = recv_dec(cl, extra_wait) {
            if let RDec::Ok(RPacket::Data { block, .. }) = d {
                return Err(("long-burst".into(), format!("DATA {} arrived beyond the acknowledged window of {} blocks (burst started at block {})", block, ws, next)));
            }
        }
        for (i, (block, data)) in pending.iter().enumerate() {
            let abs = next + i;
            if *block != (abs % 65536) as u16 {
                return Err(("burst-numbering".into(), format!("burst element {} has block number {}, expected {}", i, block, abs % 65536)));
            }
            let is_final = abs == n_blocks;
            let want_len = if is_final { file.len() - (n_blocks - 1) * blk } else { blk };
            if data.len() != want_len {
                return Err(("block-length".into(), format!("DATA {} carries {} bytes; acknowledged blksize {} (final block: {}, expected {})", block, data.len(), blk, is_final, want_len)));
            }
            got.extend_from_slice(data);
        }
        if first_burst && c.timing && timeout_acked && timeout_s <= 2 {
            // stay silent: the first retransmission must not come before the acknowledged timeout
            out.classes.push("retransmission-timing-measured");
            let t0 = t_first_burst_done;
            let limit = Duration::from_secs(timeout_s) + Duration::from_millis(3500);
            let mut seen = None;
            while t0.elapsed() < limit {
                if let Some((RDec::Ok(RPacket::Data { block, .. }), _, _)) = recv_dec(cl, Duration::from_millis(100)) {
                    seen = Some((t0.elapsed(), block));
                    break;
                }
            }
            match seen {
                None => return Err(("late-retransmission".into(), format!("no retransmission within {:?} of the first burst (acknowledged timeout {} s)", limit, timeout_s))),
                Some((el, block)) => {
                    if el + Duration::from_millis(130) < Duration::from_secs(timeout_s) {
                        return Err(("early-retransmission".into(), format!("block {} was retransmitted {:?} after the first burst; acknowledged timeout is {} s", block, el, timeout_s)));
                    }
                    // swallow the rest of the retransmitted window
                    let _ = cl.drain(Duration::from_millis(60));
                }
            }
        }
        first_burst = false;
        next += pending.len();
        let last = pending.last().unwrap().0;
        pending.clear();
        cl.send(&refcodec::ack(last), peer);
        if next > n_blocks {
            break;
        }
    }
    if got != file {
        return Err(("content".into(), format!("downloaded {} bytes differ from the file ({} bytes)", got.len(), file.len())));
    }
    Ok(())
}

fn upload(cl: &Client, peer: SocketAddr, c: &Case, file: &[u8], blk: usize, ws: usize, recv_dir: &Path) -> Result<(), (String, String)> {
    let n_blocks = file.len() / blk + 1;
    let mut next = 1usize;
    let mut first_window = true;
    while next <= n_blocks {
        let count = ws.min(n_blocks + 1 - next);
        for i in 0..count {
            let abs = next + i;
            let s = (abs - 1) * blk;
            let e = (s + blk).min(file.len());
            let is_last_of_burst = i + 1 == count;
            if is_last_of_burst && count >= 2 && first_window {
                // "acknowledged after exactly W blocks and not before"
                if let Some((d, _, _)) = recv_dec(cl, Duration::from_millis(80)) {
                    return Err(("early-ack".into(), format!("{:?} arrived after only {} of {} blocks of the window", d, i, count)));
                }
            }
            cl.send(&refcodec::data((abs % 65536) as u16, &file[s..e]), peer);
        }
        let last = next + count - 1;
        match recv_dec(cl, Duration::from_secs(3)) {
            Some((RDec::Ok(RPacket::Ack(k)), _, _)) if k == (last % 65536) as u16 => {}
            Some((other, raw, _)) => return Err(("wrong-ack".into(), format!("after blocks {}..{} (windowsize {}, blksize {}) the server answered {:?} ({})", next, last, ws, blk, other, hex(&raw)))),
            None => return Err(("missing-ack".into(), format!("no ACK {} within 3 s after blocks {}..{} (acknowledged windowsize {}, blksize {})", last, next, last, ws, blk))),
        }
        first_window = false;
        next += count;
    }
    let _ = c;
    // the worker thread flushes before it acknowledges, so the file is complete now
    let stored = std::fs::read(recv_dir.join("up.bin")).unwrap_or_default();
    if stored != file {
        return Err(("content".into(), format!("stored upload has {} bytes, sent {}", stored.len(), file.len())));
    }
    Ok(())
}

pub fn judge(dir: &Path, c: &Case, obs: &mut Obs) -> Judge {
    let ex = expectations(c);
    obs.class(if c.single { "single-port" } else { "multi-port" });
    obs.class(if c.write { "wrq" } else { "rrq" });
    obs.class_if(ex.recognised.is_empty(), "no-recognised-option");
    obs.class_if(ex.recognised.len() >= 2, "two-or-more-options");
    obs.class_if(ex.unhonourable.is_some(), "unhonourable-value");
    obs.class_if(c.opts.iter().any(|(n, _)| n.chars().any(|ch| ch.is_ascii_uppercase()) && ROpt::from_ascii_ci(n.as_bytes()).is_some()), "mixed-case-name");
    obs.class_if(c.opts.iter().any(|(n, _)| ROpt::from_ascii_ci(n.as_bytes()).is_none()), "unknown-option-interleaved");
    obs.class_if(c.opts.iter().filter(|(n, _)| ROpt::from_ascii_ci(n.as_bytes()).is_none()).count() >= 8, "eight-or-more-unknown-options");
    {
        let ex = expectations(c);
        obs.class_if(!ex.repeated.is_empty(), "recognised-option-repeated-one-unhonourable");
        obs.class_if(ex.oversize_tsize.is_some(), "wrq-tsize-beyond-64-bits");
    }
    let boundary = ex.recognised.iter().any(|(o, v)| match o {
        ROpt::Blksize => [7u64, 8, 9, 511, 512, 513, 65463, 65464, 65465].contains(v),
        ROpt::Windowsize => [0u64, 1, 2, 65534, 65535, 65536].contains(v),
        ROpt::Timeout => [0u64, 1, 255].contains(v),
        ROpt::Tsize => *v == 0,
    });
    obs.class_if(boundary, "boundary-value");
    obs.nontrivial = ex.recognised.len() >= 2 || boundary;
    let r = run_case(dir, c);
    let r = match r {
        Err((sig, detail)) if sig != "harness" => {
            // isolated re-run before reporting (real time, real kernel)
            match run_case(dir, c) {
                Ok(o) => {
                    obs.inconclusive = Some(format!("failed once ({}: {}), passed on the isolated re-run", sig, detail));
                    Ok(o)
                }
                other => other,
            }
        }
        other => other,
    };
    match r {
        Ok(o) => {
            for cl in o.classes {
                obs.class(cl);
            }
            Ok(())
        }
        Err((sig, detail)) if sig == "harness" => {
            obs.inconclusive = Some(detail);
            Ok(())
        }
        Err((sig, detail)) => viol!(sig, "{} | case single={} write={} file_len={} opts={:?}", detail, c.single, c.write, c.file_len, c.opts),
    }
}

fn recognised_name(o: ROpt) -> BoxedStrategy<String> {
    let n = o.name();
    prop_oneof![
        4 => Just(n.to_string()),
        1 => Just(n.to_uppercase()),
        2 => proptest::collection::vec(any::<bool>(), n.len()).prop_map(move |ups| n.chars().zip(ups).map(|(c, u)| if u { c.to_ascii_uppercase() } else { c }).collect::<String>()),
    ]
    .boxed()
}

fn value_for(o: ROpt) -> BoxedStrategy<u64> {
    match o {
        ROpt::Blksize => prop_oneof![
            6 => prop::sample::select(vec![8u64, 9, 16, 511, 512, 513, 1024, 1428, 8192, 65463, 65464]),
            3 => 8u64..=65464,
            2 => prop::sample::select(vec![0u64, 1, 7, 65465, 65535, 65536, 65536 + 512, 131072 + 1024, 1 << 32, (1 << 32) + 512, (1 << 32) + 1428, u64::MAX - 3]),
            1 => 65465u64..200_000,
        ]
        .boxed(),
        ROpt::Windowsize => prop_oneof![
            6 => 1u64..=8,
            2 => prop::sample::select(vec![16u64, 64, 1000, 65534, 65535]),
            1 => 1u64..=65535,
            2 => prop::sample::select(vec![0u64, 65536, 65537, 65540, 70000, 131071, 131073, 1 << 20, (1 << 20) + 4, 1 << 32, (1 << 32) + 1, (1 << 32) + 8, u64::MAX]),
            1 => 65536u64..300_000,
        ]
        .boxed(),
        ROpt::Timeout => prop_oneof![
            5 => prop::sample::select(vec![1u64, 2, 3, 5, 255]),
            2 => 1u64..=255,
            2 => Just(0u64),
        ]
        .boxed(),
        ROpt::Tsize => prop_oneof![3 => Just(0u64), 2 => 0u64..100_000, 1 => any::<u64>()].boxed(),
    }
}

pub fn strategy() -> BoxedStrategy<Case> {
    // subset and order of the four options
    let subset = proptest::collection::vec(any::<bool>(), 4);
    (any::<bool>(), any::<bool>(), subset, any::<u64>(), proptest::collection::vec(any::<u16>(), 4), (0usize..40, 0usize..64), prop_oneof![
            8 => proptest::collection::vec((0usize..5, prop_oneof![Just("multicast"), Just("x"), Just("blksize2"), Just("utimeout")], "[a-z0-9]{0,6}"), 0..3),
            // a long run of vendor options around the recognised ones (the request stays far below 512 bytes)
            2 => proptest::collection::vec((0usize..5, prop_oneof![Just("multicast"), Just("x"), Just("blksize2"), Just("utimeout")], "[a-z0-9]{0,6}"), 6..16),
        ], prop_oneof![9 => Just(false), 1 => Just(true)])
        .prop_flat_map(|(single, write, subset, seed, order, (blocks, rem), unknown, timing)| {
            let chosen: Vec<ROpt> = ROpt::ALL.iter().zip(subset.iter()).filter(|(_, b)| **b).map(|(o, _)| *o).collect();
            let strategies: Vec<BoxedStrategy<(String, u64)>> = chosen.iter().map(|o| (recognised_name(*o), value_for(*o)).boxed()).collect();
            (Just((single, write, seed, order, blocks, rem, unknown, timing)), strategies)
        })
        .prop_map(|((single, write, seed, order, blocks, rem, unknown, timing), mut opts)| {
            // order: shuffle by the generated keys
            let mut keyed: Vec<(u16, (String, u64))> = opts.drain(..).enumerate().map(|(i, o)| (order[i % order.len()], o)).collect();
            keyed.sort_by_key(|(k, _)| *k);
            let mut list: Vec<(String, String)> = keyed.into_iter().map(|(_, (n, v))| (n, v.to_string())).collect();
            for (pos, n, v) in unknown {
                let p = pos.min(list.len());
                list.insert(p, (n.to_string(), v));
            }
            // effective parameters if everything is honoured, for the burst budget
            let blk = list.iter().find(|(n, _)| n.eq_ignore_ascii_case("blksize")).and_then(|(_, v)| v.parse::<usize>().ok()).filter(|b| (8..=65464).contains(b)).unwrap_or(512);
            let ws = list.iter().find(|(n, _)| n.eq_ignore_ascii_case("windowsize")).and_then(|(_, v)| v.parse::<usize>().ok()).filter(|w| (1..=65535).contains(w)).unwrap_or(1);
            // keep min(ws, blocks) * truesize(blk) below ~100 KB and the whole transfer short
            let per = blk + 100;
            let max_burst_blocks = (100_000 / per).max(1);
            let mut nblocks = blocks % (3 * ws.min(12) + 2);
            if ws > max_burst_blocks {
                nblocks = nblocks.min(max_burst_blocks.saturating_sub(1));
            }
            if blk > 4096 {
                nblocks = nblocks.min(3);
            }
            let file_len = nblocks * blk + if rem % 4 == 0 { 0 } else { rem % blk };
            // one case in ~12: a recognised option twice, one occurrence unhonourable, in either order
            if seed % 12 == 5 {
                let (n, bad, good) = [("blksize", "4", "1024"), ("blksize", "65465", "512"), ("timeout", "0", "2"), ("windowsize", "0", "2"), ("windowsize", "65536", "3"), ("BLKSIZE", "7", "16")][(seed / 12 % 6) as usize];
                list.retain(|(on, _)| !on.eq_ignore_ascii_case(n));
                let pair = if seed / 72 % 2 == 0 { [(n, bad), (n, good)] } else { [(n, good), (n, bad)] };
                let at = (seed / 144) as usize % (list.len() + 1);
                list.insert(at, (pair[0].0.to_string(), pair[0].1.to_string()));
                let at2 = at + 1 + (seed / 1440) as usize % (list.len() - at);
                list.insert(at2, (pair[1].0.to_string(), pair[1].1.to_string()));
            } else if seed % 12 == 7 && write {
                // a tsize that does not fit 64 bits on a write request: never echoed as a different number
                list.retain(|(on, _)| !on.eq_ignore_ascii_case("tsize"));
                list.push(("tsize".to_string(), ["18446744073709551616", "99999999999999999999999", "18446744073709551617"][(seed / 12 % 3) as usize].to_string()));
            }
            Case {
                single,
                write,
                file_len,
                opts: list,
                timing: timing && !write,
                seed,
                big_burst: false,
            }
        })
        .boxed()
}

const BIG_GEOMETRIES: [(u64, u64); 16] = [(1024, 256), (1428, 200), (512, 500), (8192, 40), (65464, 5), (4096, 100), (1024, 1000), (512, 65535), (8, 2000), (8, 65535), (16, 1025), (8, 1100), (32, 4096), (65464, 70), (32768, 140), (65464, 600)];

fn big_case(single: bool, blk: u64, ws: u64, extra: usize, seed: u64) -> Case {
    let blocks_in_buf = (212_992 / blk) as usize;
    let blocks = if blk >= 32768 {
        // a window of more than 4 MiB (more than 32 MiB for 65464 x 600)
        ws as usize + 2
    } else if blk <= 32 {
        // tiny blocks: more than 1024 and more than 2048 blocks in one window
        (1030 + extra * 1100).min(ws as usize + 2 + extra)
    } else {
        // more full blocks than fit into 212992 bytes, at most ~1.5 MB per burst
        (blocks_in_buf + 3 + extra * 7).min(ws as usize + 2 + extra)
    };
    Case {
        single,
        write: false,
        file_len: blocks * blk as usize + 17,
        opts: vec![("blksize".into(), blk.to_string()), ("windowsize".into(), ws.to_string())],
        timing: false,
        seed,
        big_burst: true,
    }
}

/// downloads whose window is larger than the default UDP socket buffer (212992 bytes)
pub fn big_strategy() -> BoxedStrategy<Case> {
    (any::<bool>(), prop::sample::select(BIG_GEOMETRIES.to_vec()), 0usize..3, any::<u64>()).prop_map(|(single, (blk, ws), extra, seed)| big_case(single, blk, ws, extra, seed)).boxed()
}

/// every big geometry once per port mode (deterministic)
pub fn big_grid() -> Vec<Case> {
    let mut out = vec![];
    for (i, (blk, ws)) in BIG_GEOMETRIES.iter().enumerate() {
        for single in [false, true] {
            out.push(big_case(single, *blk, *ws, i % 3, 900 + i as u64));
        }
    }
    out
}

/// every subset and every order of the four options (65 ordered selections) x name case x RRQ/WRQ x port mode, valid values
fn exhaustive_orders() -> Vec<Case> {
    let base: [(&str, &str); 4] = [("blksize", "1024"), ("timeout", "3"), ("tsize", "0"), ("windowsize", "2")];
    let mut selections: Vec<Vec<usize>> = vec![vec![]];
    fn rec(cur: &mut Vec<usize>, out: &mut Vec<Vec<usize>>) {
        for i in 0..4 {
            if !cur.contains(&i) {
                cur.push(i);
                out.push(cur.clone());
                rec(cur, out);
                cur.pop();
            }
        }
    }
    rec(&mut vec![], &mut selections);
    let mut out = vec![];
    for (k, sel) in selections.iter().enumerate() {
        for single in [false, true] {
            for write in [false, true] {
                let style = k % 3;
                let opts: Vec<(String, String)> = sel
                    .iter()
                    .map(|i| {
                        let (n, v) = base[*i];
                        let name = match style {
                            0 => n.to_string(),
                            1 => n.to_uppercase(),
                            _ => n.chars().enumerate().map(|(j, c)| if j % 2 == 0 { c.to_ascii_uppercase() } else { c }).collect(),
                        };
                        let v = if n == "tsize" && write { "2500".to_string() } else { v.to_string() };
                        (name, v)
                    })
                    .collect();
                out.push(Case { single, write, file_len: 2500, opts, timing: false, seed: 9 + k as u64, big_burst: false });
            }
        }
    }
    out
}

/// every recognised option x every boundary value, alone in a request (deterministic)
fn boundary_sweep() -> Vec<Case> {
    let values: [(&str, &[u64]); 4] = [
        ("blksize", &[0, 1, 7, 8, 9, 511, 512, 513, 1428, 65463, 65464, 65465, 65535, 65536, 131072 + 8, (1 << 32) + 512]),
        ("windowsize", &[0, 1, 2, 3, 64, 65534, 65535, 65536, 65537, 131071, (1 << 32) + 1]),
        ("timeout", &[0, 1, 2, 5, 254, 255]),
        ("tsize", &[0, 1, 2500, 1 << 32, u64::MAX]),
    ];
    let mut out = vec![];
    for (name, vals) in values {
        for (k, v) in vals.iter().enumerate() {
            for write in [false, true] {
                let single = (k + write as usize) % 2 == 0;
                // keep one burst small: a file of a few blocks of the effective block size
                let blk = if name == "blksize" && (8..=65464).contains(v) { *v as usize } else { 512 };
                let ws = if name == "windowsize" && (1..=65535).contains(v) { *v as usize } else { 1 };
                let blocks = if blk > 4096 { 2 } else { (ws + 2).min(5) };
                out.push(Case { single, write, file_len: blocks * blk + 3, opts: vec![(name.to_string(), v.to_string())], timing: false, seed: 90 + k as u64, big_burst: false });
            }
        }
    }
    out
}

pub fn run(ctx: &Ctx) {
    ctx.set_rule("deterministic: every option alone with every boundary value (0, 1, range edges, edges +-1, beyond 2^16 and 2^32) x RRQ/WRQ; all 65 ordered selections of the four options (valid values) x 3 name spellings x RRQ/WRQ x port mode; random: per case a fresh real tftpd (single/multi port) and one request built from a generated subset and order of {blksize,timeout,tsize,windowsize} (names in lower/upper/mixed case, unknown options interleaved, values at and around every boundary; one case in 12 repeats a recognised option with one unhonourable and one valid value in either order - the unhonourable one must never be acknowledged -, one WRQ in 24 carries a tsize beyond 2^64-1, which may be refused, ignored or echoed verbatim but not acknowledged as a different number) for an RRQ of a file of 0..3W+1 blocks or a WRQ. Oracle: OACK iff >=1 recognised option and none unhonourable; OACK lists only requested options with blksize/timeout/windowsize <= requested and in range, tsize = true file size (RRQ) / echo (WRQ); unhonourable values (timeout 0, windowsize 0 or >65535, blksize outside 8..65464) are never acknowledged (silence, ERROR or omission accepted); without OACK: DATA 1 / ACK 0 and 512-byte lock-step. The model client then measures the transfer (and, for half of the read requests that asked for tsize, replaces the file on disk afterwards and asks again: the acknowledged tsize must be the new size): every non-final DATA has exactly the acknowledged blksize, every burst has exactly min(W, blocks left) consecutive blocks and nothing beyond, an upload is acknowledged after exactly W blocks and not before, content is byte-identical, and in timing cases (acknowledged timeout 1-2 s) the first retransmission comes no earlier than the acknowledged timeout. A second part downloads with windows larger than the default socket buffer (windowsize x blksize up to ~1.5 MB; the model client enlarges its receive buffer with SO_RCVBUFFORCE) so that 'exactly W blocks per burst' is also measured for large windows. Non-trivial = >=2 recognised options or a boundary value; distinct = distinct cases. Failures are re-run once in isolation before being reported.");
    ctx.assume("burst size min(W, blocks) x (blksize+100) is kept below 100 KB so that loopback never drops datagrams; timeouts > 255 s are not generated; early-retransmission tolerance 130 ms");
    let dirs = DirPool::new(ctx, "c09");
    let sweep = boundary_sweep();
    enumerate(ctx, "boundary-sweep", &sweep, true, |c, o| dirs.with(|d| judge(d, c, o)));
    let orders = exhaustive_orders();
    enumerate(ctx, "exh-subsets-and-orders", &orders, true, |c, o| dirs.with(|d| judge(d, c, o)));
    explore_n(ctx, "random", ctx.tier.pick(4_000, 150_000), shards(), 24, strategy, |c: &Case, o| dirs.with(|d| judge(d, c, o)));
    let grid = big_grid();
    enumerate(ctx, "big-window-grid", &grid, false, |c, o| dirs.with(|d| judge(d, c, o)));
    explore_n(ctx, "big-window-download", ctx.tier.pick(16, 1_500), shards(), 12, big_strategy, |c: &Case, o| dirs.with(|d| judge(d, c, o)));
}

pub fn replay(ctx: &Ctx, part: &str, case: &Value) -> bool {
    let dirs = DirPool::new(ctx, "c09");
    replay_one(ctx, part, case, |c: &Case, o| dirs.with(|d| judge(d, c, o)))
}
