//! Wire spot checks for C01 (download fidelity) and C02 (upload fidelity): the real tftpd, a model client
//! that misbehaves within the protocol (partial/duplicate ACKs; duplicated and reordered DATA).

use crate::common::*;
use crate::refcodec::{self, RDec, RPacket};
use crate::viol;
use crate::wclient::{self, Start};
use crate::wire::{self, Client, Server, StartError};
use proptest::prelude::*;
use serde::{Deserialize, Serialize};
use serde_json::Value;
use std::path::Path;
use std::time::Duration;

#[derive(Clone, Debug, Serialize, Deserialize)]
pub struct Case {
    pub upload: bool,
    pub single: bool,
    pub blk: Option<u32>,
    pub ws: Option<u16>,
    pub len: usize,
    /// per window: 0 = behave, 1 = partial ACK / duplicate a block, 2 = duplicate ACK / swap two blocks
    pub quirks: Vec<u8>,
    pub seed: u64,
    /// the first reply is "lost": the client sends its request again from the same endpoint
    #[serde(default)]
    pub resend_request: bool,
}

fn run_case(dir: &Path, c: &Case) -> Result<Vec<&'static str>, (String, String)> {
    let root = dir.join("c0xw");
    let _ = std::fs::remove_dir_all(&root);
    let send = root.join("send");
    let recv = root.join("recv");
    std::fs::create_dir_all(&send).unwrap();
    std::fs::create_dir_all(&recv).unwrap();
    let data = content(c.seed, c.len);
    if !c.upload {
        std::fs::write(send.join("f.bin"), &data).unwrap();
    }
    let mut args = vec![wire::s("-sd"), send.to_string_lossy().to_string(), wire::s("-rd"), recv.to_string_lossy().to_string()];
    if c.single {
        args.push(wire::s("-s"));
    }
    let mut srv = match Server::start(&args, &root) {
        Ok(s) => s,
        Err(StartError::Exited(code, e)) => return Err(("harness".into(), format!("tftpd exited at start-up with {}: {}", code, e))),
        Err(StartError::Harness(e)) => return Err(("harness".into(), e)),
    };
    let mut opts = vec![];
    if let Some(b) = c.blk {
        opts.push(("blksize".to_string(), b.to_string()));
    }
    if let Some(w) = c.ws {
        opts.push(("windowsize".to_string(), w.to_string()));
    }
    let cl = Client::new();
    let mut classes = vec![];
    if c.resend_request && !c.upload && !opts.is_empty() {
        // the reply to the first request never reaches the client; like any RFC 2347 client it repeats the request
        cl.send(&wclient::request_bytes(false, "f.bin", &opts), srv.addr);
        let first = cl.recv(Duration::from_secs(3));
        if first.is_none() {
            return Err(("not-accepted".into(), format!("valid request {:?} got no reply", opts)));
        }
        classes.push("request-retransmitted");
    }
    let (neg, first_data) = match wclient::start(&cl, srv.addr, c.upload, "f.bin", &opts, Duration::from_secs(3)) {
        Start::Accepted { neg, first_data } => (neg, first_data),
        other => return Err(("not-accepted".into(), format!("valid request {:?} was answered with {:?}", opts, other))),
    };
    if c.resend_request && !c.upload && !opts.is_empty() && neg.oack.is_none() {
        // the client has seen no OACK: whatever DATA arrives must follow RFC 1350 defaults (512-byte blocks),
        // wclient::start has recorded blksize 512 / windowsize 1 for that case and the slice check below applies them
        classes.push("data-without-oack-after-retransmitted-request");
    }
    let blk = neg.blk;
    let n_blocks = data.len() / blk + 1;
    let slice = |abs: usize| -> &[u8] {
        let s = ((abs - 1) * blk).min(data.len());
        let e = (s + blk).min(data.len());
        &data[s..e]
    };
    if c.upload {
        let mut next = 1usize;
        let mut win = 0usize;
        while next <= n_blocks {
            let count = neg.ws.min(n_blocks + 1 - next);
            let quirk = c.quirks.get(win).copied().unwrap_or(0);
            win += 1;
            let mut order: Vec<usize> = (next..next + count).collect();
            match quirk {
                1 => {
                    // duplicate one block of the window
                    let k = order[order.len() / 2];
                    order.insert(order.len() / 2, k);
                    classes.push("duplicated-data");
                }
                2 if count >= 2 => {
                    // an old block arrives again ahead of the window (reordering of a retransmission)
                    if next > 1 {
                        order.insert(0, next - 1);
                        classes.push("old-block-replayed");
                    }
                }
                _ => {}
            }
            for abs in order {
                cl.send(&refcodec::data((abs % 65536) as u16, slice(abs)), neg.peer);
            }
            let last = next + count - 1;
            // wait for the ACK of the window; re-acknowledgements of older blocks may come first
            let t0 = std::time::Instant::now();
            loop {
                match cl.recv(Duration::from_millis(500)) {
                    Some((b, _)) => match refcodec::decode(&b) {
                        RDec::Ok(RPacket::Ack(k)) => {
                            // ACK(k) implies blocks 1..k are in the file
                            let stored = std::fs::read(recv.join("f.bin")).unwrap_or_default();
                            let kk = if k == (last % 65536) as u16 { last } else if next > 1 && k == ((next - 1) % 65536) as u16 { next - 1 } else { usize::MAX };
                            if kk == usize::MAX {
                                return Err(("unexpected-ack".into(), format!("ACK {} while blocks {}..{} were sent", k, next, last)));
                            }
                            let need = (kk * blk).min(data.len());
                            if stored.len() < need || stored[..need] != data[..need] {
                                return Err(("ack-before-stored".into(), format!("ACK {} received but the file holds {} bytes (blocks 1..{} are {} bytes; prefix identical: {}); blksize {} windowsize {} single={}", k, stored.len(), kk, need, stored.len() >= need && stored[..need] == data[..need], blk, neg.ws, c.single)));
                            }
                            if stored.len() > data.len() || stored[..] != data[..stored.len()] {
                                return Err(("stored-not-in-order".into(), format!("at ACK {} the file ({} bytes) is not a prefix of the bytes sent", k, stored.len())));
                            }
                            if kk == last {
                                break;
                            }
                        }
                        other => return Err(("upload-disturbed".into(), format!("after blocks {}..{} the server sent {:?}", next, last, other))),
                    },
                    None => {
                        if t0.elapsed() > Duration::from_secs(4) {
                            return Err(("upload-disturbed".into(), format!("no ACK {} for blocks {}..{} (blksize {}, windowsize {})", last, next, last, blk, neg.ws)));
                        }
                    }
                }
            }
            next += count;
        }
        let stored = std::fs::read(recv.join("f.bin")).unwrap_or_default();
        if stored != data {
            return Err(("upload-content".into(), format!("stored {} bytes, sent {}", stored.len(), data.len())));
        }
    } else {
        // download with partial and duplicate ACKs; every DATA is checked against the file slice of its number
        let mut base = 1usize; // first unacknowledged
        let mut got_upto = 0usize; // highest in-order block received
        let mut win = 0usize;
        let mut pending: Vec<(u16, Vec<u8>)> = first_data.into_iter().collect();
        let mut idle = 0;
        while got_upto < n_blocks {
            let (block, payload) = if let Some(p) = pending.pop() {
                p
            } else {
                match cl.recv(Duration::from_millis(1500)) {
                    Some((b, _)) => match refcodec::decode(&b) {
                        RDec::Ok(RPacket::Data { block, data }) => (block, data),
                        other => return Err(("download-disturbed".into(), format!("{:?}", other))),
                    },
                    None => {
                        idle += 1;
                        if idle > 3 {
                            return Err(("download-disturbed".into(), format!("stalled at block {}", got_upto + 1)));
                        }
                        cl.send(&refcodec::ack((got_upto % 65536) as u16), neg.peer);
                        base = got_upto + 1;
                        continue;
                    }
                }
            };
            // absolute index: nearest candidate at or above base
            let abs = base + (block.wrapping_sub((base % 65536) as u16)) as usize;
            if abs > n_blocks {
                return Err(("block-beyond-final".into(), format!("DATA {} (absolute {}) received, the file has {} blocks", block, abs, n_blocks)));
            }
            if payload.as_slice() != slice(abs) {
                return Err(("wrong-slice".into(), format!("DATA {} (absolute {}) carries {} bytes that are not file[{}..]; blksize {}", block, abs, payload.len(), (abs - 1) * blk, blk)));
            }
            if abs == got_upto + 1 {
                got_upto = abs;
            }
            let window_end = (base + neg.ws - 1).min(n_blocks);
            if got_upto == window_end || got_upto == n_blocks {
                let quirk = c.quirks.get(win).copied().unwrap_or(0);
                win += 1;
                let mut ack_to = got_upto;
                if quirk == 1 && got_upto > base && got_upto < n_blocks {
                    ack_to = base + (got_upto - base) / 2; // partial ACK: the rest must come again
                    classes.push("partial-ack");
                    got_upto = ack_to;
                }
                if quirk == 2 {
                    cl.send(&refcodec::ack(((base - 1) % 65536) as u16), neg.peer); // duplicate of the previous ACK first
                    classes.push("duplicate-ack");
                }
                cl.send(&refcodec::ack((ack_to % 65536) as u16), neg.peer);
                base = ack_to + 1;
            }
        }
    }
    if let Some(st) = srv.exit_status() {
        return Err(("server-terminated".into(), format!("tftpd exited ({})", st)));
    }
    drop(srv);
    let _ = std::fs::remove_dir_all(&root);
    Ok(classes)
}

pub fn judge(dir: &Path, c: &Case, obs: &mut Obs) -> Judge {
    obs.class(if c.single { "wire-single-port" } else { "wire-multi-port" });
    obs.class_if(c.blk.map(|b| b > 512).unwrap_or(false), "wire-blksize>512");
    let r = match run_case(dir, c) {
        Err((sig, d)) if sig != "harness" => match run_case(dir, c) {
            Ok(k) => {
                obs.inconclusive = Some(format!("failed once ({}: {}), passed on the isolated re-run", sig, d));
                Ok(k)
            }
            other => other,
        },
        other => other,
    };
    match r {
        Ok(k) => {
            obs.nontrivial = !k.is_empty() || c.blk.is_some() || c.ws.is_some();
            for x in k {
                obs.class(x);
            }
            Ok(())
        }
        Err((sig, d)) if sig == "harness" => {
            obs.inconclusive = Some(d);
            Ok(())
        }
        Err((sig, d)) => viol!(format!("wire-{}", sig), "{} | {:?}", d, c),
    }
}

pub fn strategy(upload: bool) -> BoxedStrategy<Case> {
    (any::<bool>(), prop_oneof![2 => Just(None), 1 => Just(Some(8u32)), 1 => Just(Some(511u32)), 2 => Just(Some(1024u32)), 1 => Just(Some(1428u32)), 1 => Just(Some(8192u32)), 1 => (8u32..=16384).prop_map(Some), 1 => prop::sample::select(vec![65464u32, 65463, 65461, 65460, 32768]).prop_map(Some)], prop_oneof![2 => Just(None), 3 => (1u16..=6).prop_map(Some)], 0usize..8, any::<u16>(), proptest::collection::vec(0u8..3, 0..10), any::<u64>())
        .prop_map(move |(single, blk, ws, blocks, r, quirks, seed)| {
            let b = blk.unwrap_or(512) as usize;
            let blocks = if b > 16384 { blocks.min(2) } else if b > 4096 { blocks.min(3) } else { blocks };
            let ws = if b > 16384 { None } else { ws };
            let len = blocks * b + if r % 5 == 0 { 0 } else { r as usize % b };
            Case { upload, single, blk, ws, len, quirks, seed, resend_request: seed % 5 == 0 }
        })
        .boxed()
}

pub fn run_wire(ctx: &Ctx, upload: bool) {
    let dirs = DirPool::new(ctx, "c0xw");
    explore_n(ctx, if upload { "wire-upload" } else { "wire-download" }, ctx.tier.pick(1_500, 40_000), shards(), 32, || strategy(upload), |c: &Case, o| dirs.with(|d| judge(d, c, o)));
}

pub fn replay(ctx: &Ctx, part: &str, case: &Value) -> bool {
    let dirs = DirPool::new(ctx, "c0xw");
    replay_one(ctx, part, case, |c: &Case, o| dirs.with(|d| judge(d, c, o)))
}
