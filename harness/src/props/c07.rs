//! C07 Termination (sim, fault enumeration over position x cause).

use super::simcommon::*;
use crate::common::*;
use crate::pred::Facts;
use crate::sim::{self, After, Ev, Role, Scenario, Sev};
use crate::simgen;
use proptest::prelude::*;
use serde_json::Value;
use std::path::Path;

const OWNED: [&str; 5] = ["S2", "S6", "S7", "S8", "R4"];

pub fn judge(dir: &Path, sc: &Scenario, obs: &mut Obs) -> Judge {
    let (r, _f, fa) = run_and_judge(dir, sc, obs, &OWNED)?;
    classify(sc, &r.trace, &fa, obs);
    Ok(())
}

fn classify(sc: &Scenario, trace: &[Ev], fa: &Facts, obs: &mut Obs) {
    let silent_inside = sc.after == After::Silent && !fa.completed;
    let error_inside = fa.peer_error && !fa.completed;
    obs.class_if(silent_inside, "silence-inside-transfer");
    obs.class_if(error_inside, "error-inside-transfer");
    obs.class_if(fa.error_at_handshake, "error-as-reply-to-oack");
    obs.class_if(trace.is_empty(), "no-events");
    obs.nontrivial = silent_inside || error_inside || fa.partial_after_eof > 0;
}

fn configs(wmax: u16) -> Vec<(Role, bool, u16, usize, usize)> {
    let blk = 8usize;
    let mut out = vec![];
    for role in [Role::Sender, Role::Receiver] {
        for hs in [false, true] {
            if hs && role == Role::Receiver {
                continue;
            }
            for w in 1..=wmax {
                let wl = w as usize;
                let mut lens = vec![0, 3, blk, wl * blk - 1, wl * blk, wl * blk + 1, 2 * wl * blk, 2 * wl * blk + 5, (wl + 1) * blk + 2];
                lens.sort();
                lens.dedup();
                for len in lens {
                    out.push((role, hs, w, blk, len));
                }
            }
        }
    }
    out
}

fn mk(cfg: &(Role, bool, u16, usize, usize), script: Vec<Sev>, after: After) -> Scenario {
    let mut sc = Scenario::lossless(cfg.0, cfg.3, cfg.2, cfg.4, 11 + cfg.4 as u64);
    sc.handshake = cfg.1;
    sc.script = script;
    sc.after = after;
    sc
}

fn exhaustive(dir: &Path, wmax: u16) -> Vec<Scenario> {
    let mut out = vec![];
    for cfg in configs(wmax) {
        let base = mk(&cfg, vec![], After::Honest);
        let r = sim::run(&base, dir);
        let positions = r.trace.iter().filter(|e| !matches!(e, Ev::Tx { .. })).count();
        for p in 0..=positions {
            let prefix = vec![Sev::Pass; p];
            // (i) the peer falls silent at p
            out.push(mk(&cfg, prefix.clone(), After::Silent));
            // (ii) the peer sends ERROR at p
            for code in [0u16, 1, 2, 3, 4, 5, 6, 7] {
                let mut s = prefix.clone();
                s.push(Sev::Error(code));
                out.push(mk(&cfg, s, After::Honest));
                if code >= 1 {
                    continue;
                }
                // a long message: cut by the worker's own receive buffer (blksize + 4 / 516 bytes)
                for n in [9u16, 6, 600] {
                    let mut s = prefix.clone();
                    s.push(Sev::ErrorLong(code, n));
                    out.push(mk(&cfg, s, After::Honest));
                }
                let mut s = prefix.clone();
                s.push(Sev::Error(code));
                out.push(mk(&cfg, s, After::Silent));
            }
            if cfg.0 == Role::Sender {
                // (iii) every acknowledgement pattern at p, then honest completion
                for j in 0..cfg.2 {
                    let mut s = prefix.clone();
                    s.push(Sev::AckPartial(j));
                    out.push(mk(&cfg, s.clone(), After::Honest));
                    s.push(Sev::AckPartial(j));
                    out.push(mk(&cfg, s, After::Honest));
                }
                for e in [Sev::AckFull, Sev::AckDup(0), Sev::AckDup(1), Sev::Hold, Sev::DropPending] {
                    let mut s = prefix.clone();
                    s.push(e);
                    out.push(mk(&cfg, s, After::Honest));
                }
            } else {
                for e in [Sev::DataDup(0), Sev::DataDup(1), Sev::DataFuture(0), Sev::Hold, Sev::DropPending, Sev::StrayAck(0)] {
                    let mut s = prefix.clone();
                    s.push(e);
                    out.push(mk(&cfg, s, After::Honest));
                }
            }
        }
    }
    out
}

pub fn strategy() -> BoxedStrategy<Scenario> {
    (
        prop_oneof![Just(Role::Sender), Just(Role::Receiver)],
        simgen::geometry(40),
        any::<u64>(),
        any::<bool>(),
        simgen::fates(30, 4),
        any::<bool>(),
        prop_oneof![1 => Just(After::Honest), 1 => Just(After::Silent)],
        (any::<bool>(), any::<bool>(), any::<bool>()),
    )
        .prop_flat_map(|(role, geo, seed, hs, fates, use_fates, after, flags)| {
            let ev = if role == Role::Sender { simgen::sender_sev() } else { simgen::receiver_sev() };
            (proptest::collection::vec(ev, 0..30)).prop_map(move |script| simgen::scenario(role, geo, seed, hs, if use_fates { fates.clone() } else { vec![] }, script, after, flags))
        })
        .boxed()
}

pub fn run(ctx: &Ctx) {
    sim::init();
    ctx.set_level("fault_enumeration");
    ctx.set_rule("both worker roles under the simulated socket. Exhaustive: for windowsize 1..W (quick 4, thorough 8), file lengths around one and two windows (multiples and non-multiples of blksize), with/without OACK handshake, and EVERY receive position p of the lossless run: the peer falls silent at p; the peer sends ERROR (codes 0..7) at p, including as the reply to the OACK; for the sender every acknowledgement pattern at p (each partial ACK j once and twice, full, duplicate, stale, delayed, lost) followed by honest completion; for the receiver duplicates/out-of-order/stray datagrams at p. Random: scripts of <=30 events and <=4 network faults, then honest completion or silence. Oracle on the trace: no block beyond the final block (S2), nothing emitted and no further receive after the final block was acknowledged (S6/R4) or after a peer ERROR (S7/R4), bounded number of receive attempts (S8, cap 64x the transfer length). A small wire part runs the real tftpd (both port modes): silence after DATA 1 with the server's default timeout (first retransmission after 5 s) and with timeout 1 (exactly a bounded number of transmissions, then silence), an abandoned upload (file cleaned up after 6 timeouts, not earlier), and an ERROR whose message is longer than the receive buffer (transfer ends at once). Non-trivial = silence or ERROR strictly inside the transfer, or a partial ACK after end of file was read; distinct = distinct (scenario, trace shape).");
    let dirs = DirPool::new(ctx, "c07");
    let wmax = ctx.tier.pick(4, 8);
    let cases = dirs.with(|d| exhaustive(d, wmax));
    ctx.extra("exhaustive_max_windowsize", serde_json::json!(wmax));
    enumerate(ctx, "exh-position-x-cause", &cases, true, |c, o| dirs.with(|d| judge(d, c, o)));
    explore(ctx, "random", ctx.tier.pick(300_000, 4_000_000), strategy, |c: &Scenario, o| dirs.with(|d| judge(d, c, o)));
    super::c07w::run_wire(ctx);
}

pub fn replay(ctx: &Ctx, part: &str, case: &Value) -> bool {
    if part.starts_with("wire-") {
        return super::c07w::replay(ctx, part, case);
    }
    sim::init();
    let dirs = DirPool::new(ctx, "c07");
    replay_one(ctx, part, case, |c: &Scenario, o| dirs.with(|d| judge(d, c, o)))
}
