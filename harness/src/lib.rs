pub mod common;
pub mod gen;
pub mod props;
pub mod refcodec;
