pub mod common;
pub mod gen;
pub mod pred;
pub mod props;
pub mod refcodec;
pub mod sim;
pub mod simgen;
pub mod wire;
