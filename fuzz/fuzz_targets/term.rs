#![no_main]
use libfuzzer_sys::fuzz_target;

fuzz_target!(|data: &[u8]| {
    vh::fuzzglue::run("term", data);
});
