#!/usr/bin/env bash
# Builds the verification harness and the binaries under test, offline.
set -e
cd /verif
export CARGO_NET_OFFLINE=true
export RUSTFLAGS="--cfg rs_tftpd_verif"
mkdir -p .work evidence replays
( cd harness && cargo build --release --target-dir /verif/target )
( cd /repo && cargo build --release --features client --bins --target-dir /verif/target/bins-release )
echo setup ok
