#!/usr/bin/env bash
# tools/seeds.sh <seed>... : every quick check once per seed on the current tree; prints only what is not "rc=0"
cd /verif
for seed in "$@"; do
  for id in C01 C02 C03 C04 C05 C06 C07 C08 C09 C10 C11 C12 C13 C14 C15 C16 C17 C18; do
    out=$(VERIF_SEED=$seed timeout 1500 ./check $id --tier quick 2>&1); rc=$?
    if [ $rc -ne 0 ] || echo "$out" | grep -q "^VIOLATION"; then
      echo "seed=$seed $id rc=$rc"; echo "$out" | grep -v "^KNOWN" | tail -4 | cut -c1-600
    fi
    echo "$out" | grep -E "inconclusive=[1-9]" | sed "s/^/seed=$seed /" | cut -c1-200
  done
  echo "seed=$seed done"
done
