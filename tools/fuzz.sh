#!/usr/bin/env bash
# tools/fuzz.sh <ID> <seconds> : coverage-guided campaign(s) for the property's fuzz target(s); same verdict contract as ./check
set -u
cd /verif
ID="$1"; SECS="${2:-60}"
case "$ID" in
  C10) TARGETS="decode";; C11) TARGETS="codec";; C18) TARGETS="window";; C01) TARGETS="send";; C02) TARGETS="recv";; C04) TARGETS="loss";; C07) TARGETS="term";; C08) TARGETS="flow";;
  *) exit 0;;
esac
export CARGO_NET_OFFLINE=true
export RUSTFLAGS="--cfg rs_tftpd_verif"
RC=0
for T in $TARGETS; do
  LOG=/verif/.work/fuzz-$T-$$.log
  mkdir -p /verif/.work /verif/fuzz/artifacts/$T
  rm -f /verif/fuzz/artifacts/$T/*
  ( cd /verif && cargo +nightly fuzz build -s none --fuzz-dir fuzz $T ) >"$LOG" 2>&1 || { echo "BUILD FAILED (fuzz target $T) - the campaign cannot run:"; grep -E "^error" -A8 "$LOG" | head -40; rm -f "$LOG"; exit 2; }
  CORP=$(mktemp -d /dev/shm/verif-fuzz-corpus-XXXXXX 2>/dev/null || mktemp -d /verif/.work/fuzz-corpus-XXXXXX)
  cp /verif/corpus/$T/* "$CORP"/ 2>/dev/null
  SEED="${VERIF_SEED:-1}"; [ "$SEED" = 0 ] && SEED=1
  ( cd /verif && timeout -k 10 $((SECS+120)) cargo +nightly fuzz run -s none --fuzz-dir fuzz $T "$CORP" -- -max_total_time=$SECS -fork=8 -seed=$SEED -len_control=0 -max_len=4096 -rss_limit_mb=4096 ) >"$LOG" 2>&1
  rc=$?
  EXECS=$(grep -oE "^#[0-9]+" "$LOG" | tail -1 | tr -d '#')
  COV=$(grep -oE "cov: [0-9]+" "$LOG" | tail -1 | cut -d' ' -f2)
  NCORP=$(ls "$CORP" | wc -l)
  ART=$(ls /verif/fuzz/artifacts/$T/crash-* 2>/dev/null | head -1)
  if [ -n "$ART" ]; then
    H=$(basename "$ART" | sed 's/crash-//' | cut -c1-16)
    DEST=/verif/replays/$ID-fuzz-$T-$H.bin
    cp "$ART" "$DEST"
    grep -E "PROPERTY VIOLATION|panicked" "$LOG" | head -3
    echo "VIOLATION property=$ID replay=$DEST"
    RC=1
  elif [ $rc -ne 0 ]; then
    echo "fuzz campaign $T ended with status $rc without a crash artifact (timeout/oom): inconclusive"
    tail -5 "$LOG"
  fi
  echo "fuzz target=$T seconds=$SECS executions=${EXECS:-0} coverage_edges=${COV:-0} corpus=$NCORP"
  python3 - "$ID" "$T" "$SECS" "${EXECS:-0}" "${COV:-0}" "$NCORP" <<'PY'
import json,sys
i,t,secs,ex,cov,nc=sys.argv[1:7]
p=f"/verif/evidence/{i}.json"
try:
    e=json.load(open(p))
    e["coverage"].setdefault("fuzz_campaigns",[]).append({"target":t,"engine":"libFuzzer (cargo-fuzz, -fork=8)","seconds":int(secs),"executions":int(ex),"coverage_edges":int(cov),"final_corpus":int(nc)})
    json.dump(e,open(p,"w"),indent=1)
except Exception as x:
    print("could not extend evidence:",x)
PY
  rm -rf "$CORP" "$LOG"
done
exit $RC
