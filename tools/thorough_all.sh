#!/usr/bin/env bash
cd /verif
for id in "$@"; do
  s=$(date +%s)
  out=$(timeout 14400 ./check $id --tier thorough 2>&1); rc=$?
  e=$(date +%s)
  echo "$id rc=$rc $((e-s))s"
  echo "$out" | grep -E "^(VIOLATION|BUILD|CHECK DID|fuzz target|C[0-9][0-9] tier)" | cut -c1-220
  echo "$out" | grep -B2 "^VIOLATION" | cut -c1-600 | head -12
done
echo ALLDONE
