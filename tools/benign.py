#!/usr/bin/env python3
"""benign.py <worktree> <tag> : confirm each benign<i>/ change (compiles, baseline green), store it under
/verif/seeded/benign-<tag><i>/ and run ALL quick checks against it in /repo - every check must stay silent."""
import json, os, shutil, subprocess, sys, glob, re

def sh(cmd, cwd, timeout=1800):
    env = dict(os.environ, CARGO_NET_OFFLINE="true")
    try:
        p = subprocess.run(["bash", "-c", cmd], cwd=cwd, env=env, stdout=subprocess.PIPE, stderr=subprocess.STDOUT, timeout=timeout)
        return p.returncode, p.stdout.decode(errors="replace")
    except subprocess.TimeoutExpired as e:
        return 124, (e.stdout or b"").decode(errors="replace") + "\nTIMEOUT"

IDS = ["C%02d" % i for i in range(1, 19)]
wt, tag = sys.argv[1], sys.argv[2]
for mdir in sorted(glob.glob(os.path.join(wt, "benign*"))):
    idx = re.sub(r"\D", "", os.path.basename(mdir)) or "x"
    patch = os.path.join(mdir, "patch.diff")
    if not os.path.exists(patch):
        continue
    try:
        meta = json.load(open(os.path.join(mdir, "meta.json")))
    except Exception:
        meta = {}
    sh("git checkout -- . && git clean -fdq tests", wt)
    rc, out = sh(f"git apply --check {patch} && git apply {patch}", wt)
    rec = {"kind": "benign", "summary": meta.get("summary"), "observable_difference": meta.get("observable_difference"), "why_harmless": meta.get("why_harmless"), "confirmations": {"applies": rc == 0}}
    if rc != 0:
        print(mdir, "does not apply"); continue
    rc, out = sh("cargo build --offline --features client 2>&1 | tail -3", wt)
    rec["confirmations"]["compiles"] = rc == 0 and "error" not in out
    rc, out = sh("cargo test --workspace --no-fail-fast --offline 2>&1 | grep -E 'test result|FAILED' | head", wt)
    ok = "42 passed; 0 failed" in out and "FAILED" not in out
    if not ok:
        rc, out = sh("cargo test --workspace --no-fail-fast --offline 2>&1 | grep -E 'test result|FAILED' | head", wt)
        ok = "42 passed; 0 failed" in out and "FAILED" not in out
    rec["confirmations"]["baseline_passes_with_patch"] = ok
    sh("git checkout -- .", wt)
    dest = f"/verif/seeded/benign-{tag}{idx}"
    os.makedirs(dest, exist_ok=True)
    shutil.copy(patch, dest)
    st = subprocess.run(["git", "-C", "/repo", "status", "--porcelain"], stdout=subprocess.PIPE).stdout.decode().strip()
    if st:
        print("/repo not clean"); sys.exit(2)
    rc, out = sh(f"git -C /repo apply {patch}", "/verif")
    results = {}
    if rc == 0:
        try:
            for cid in IDS:
                rc, out = sh(f"set -o pipefail; ./check {cid} --tier quick 2>&1 | tail -6", "/verif", 1500)
                viol = [l for l in out.splitlines() if l.startswith("VIOLATION")]
                sig = [l.strip() for l in out.splitlines() if "signature=" in l and not l.startswith("KNOWN-FINDING")]
                results[cid] = {"exit": rc, "violation": bool(viol), "first": (sig[0][:500] if sig else "")}
                if viol or rc not in (0,):
                    print(f"  {os.path.basename(dest)} {cid}: exit {rc} {'ALARM' if viol else ''} {sig[0][:300] if sig else out[-200:]}", flush=True)
                for f in glob.glob("/verif/replays/*.json") + glob.glob("/verif/replays/*.bin"):
                    shutil.move(f, os.path.join(dest, os.path.basename(f)))
        finally:
            subprocess.run(["git", "-C", "/repo", "checkout", "--", "."])
    rec["checks_run"] = results
    json.dump(rec, open(os.path.join(dest, "meta.json"), "w"), indent=1)
    alarms = [k for k, v in results.items() if v.get("violation")]
    print(os.path.basename(dest), rec["confirmations"], "alarms:", alarms, flush=True)
