#!/usr/bin/env python3
"""rematrix.py <seeded-name> [check ids...]  - re-run quick checks against a stored seeded change and update its meta.json.
Without check ids the checks already recorded in meta.json are re-run. Keeps a 'history' note of earlier misses."""
import json, os, subprocess, sys, glob, re

def sh(cmd, cwd, timeout=1800):
    env = dict(os.environ, CARGO_NET_OFFLINE="true")
    try:
        p = subprocess.run(["bash", "-c", cmd], cwd=cwd, env=env, stdout=subprocess.PIPE, stderr=subprocess.STDOUT, timeout=timeout)
        return p.returncode, p.stdout.decode(errors="replace")
    except subprocess.TimeoutExpired as e:
        return 124, (e.stdout or b"").decode(errors="replace") + "\nTIMEOUT"

def main():
    name = sys.argv[1]
    d = f"/verif/seeded/{name}"
    meta = json.load(open(f"{d}/meta.json"))
    ids = sys.argv[2:] or list((meta.get("checks_run") or {}).keys())
    st = subprocess.run(["git", "-C", "/repo", "status", "--porcelain"], stdout=subprocess.PIPE).stdout.decode().strip()
    if st:
        print("/repo is not clean:", st); sys.exit(2)
    rc, out = sh(f"git -C /repo apply {d}/patch.diff", "/verif")
    if rc != 0:
        print("patch does not apply", out); sys.exit(2)
    old = meta.get("checks_run") or {}
    new = dict(old)
    try:
        for cid in ids:
            rc, out = sh(f"set -o pipefail; ./check {cid} --tier quick 2>&1 | tail -6", "/verif", 1500)
            viol = [l for l in out.splitlines() if l.startswith("VIOLATION")]
            sig = [l.strip() for l in out.splitlines() if "signature=" in l and not l.startswith("KNOWN-FINDING")]
            new[cid] = {"exit": rc, "violation": bool(viol), "first": (sig[0][:400] if sig else out[-300:])}
            was = old.get(cid)
            if isinstance(was, dict) and not was.get("violation") and viol:
                h = meta.get("history", "")
                note = f"{cid} missed it at first; caught after the check was strengthened"
                if note not in h:
                    meta["history"] = (h + "; " if h else "") + note
            # the shrunk failing case becomes a regression replay of that check (it passes on the unchanged tree)
            keep = os.environ.get("KEEP_REPLAYS") == "1" and cid == meta.get("property")
            for k, f in enumerate(sorted(glob.glob("/verif/replays/*.json"))):
                if keep and k == 0:
                    try:
                        j = json.load(open(f)); j["seeded_change"] = name
                        json.dump(j, open(f"/verif/replays/regress/{cid}-seeded-{name}.json", "w"), indent=1)
                    except Exception as e:
                        print("could not keep replay", e)
                os.remove(f)
            for f in glob.glob("/verif/replays/*.bin"):
                os.remove(f)
            print(name, cid, "exit", rc, "VIOLATION" if viol else "silent", (sig[0][:140] if sig else ""))
    finally:
        subprocess.run(["git", "-C", "/repo", "checkout", "--", "."])
    meta["checks_run"] = new
    json.dump(meta, open(f"{d}/meta.json", "w"), indent=1)

main()
