#!/usr/bin/env python3
"""Regenerates /verif/MANIFEST.json from the table below (keeps it valid at all times)."""
import json, subprocess

HOOK_COMMITS = ["7a0cbf6"]

# id -> (engine, category, text, note, technique, design_ref)
CHECKS = {
 "C10": ("pure", "exploration",
   "Generated-input search over byte strings against a reference decoder: bounded-exhaustive enumeration (all strings <=6 (quick) / <=7 (thorough) over a 12-byte structural alphabet, all 65536 opcode prefixes x 20 tails, all short token sequences of the option grammar) plus seeded proptest generation of mutated valid packets and raw datagrams up to 64 KiB; oracle = no panic, rejection wherever a rule named by the property applies, re-encode stability of everything accepted. Evidence of absence only within the enumerated boxes.",
   "Trusts the independent reference decoder in harness/src/refcodec.rs; ERROR messages without NUL are exempt (pinned baseline test requires acceptance).",
   "bounded-exhaustive enumeration + proptest (mutation-based) + libFuzzer target, reference-decoder oracle", "4/C10"),
 "C11": ("pure", "exploration",
   "proptest generation of Packet values from a grammar compared byte-for-byte with an independent RFC encoder and decoded by both decoders; exhaustive sweep of all 65536 u16 values through Opcode/ErrorCode conversions and DATA/ACK block numbers.",
   "Trusts harness/src/refcodec.rs as the statement of the RFC layout.",
   "proptest grammar-based generation, differential against independent codec, exhaustive u16 sweep", "4/C11"),
}

NOT_YET = {}

def main():
    props = [json.loads(l) for l in open('/verif/properties.jsonl')]
    checks = []
    na = []
    for p in props:
        i = p["id"]
        if i in CHECKS:
            eng, cat, text, note, tech, ref = CHECKS[i]
            checks.append({
                "property_id": i,
                "quick_cmd": f"./check {i} --tier quick",
                "thorough_cmd": f"./check {i} --tier thorough",
                "evidence_file": f"/verif/evidence/{i}.json",
                "replay_cmd_template": f"./check {i} --replay {{path}}",
                "engine": eng,
                "level_claimed": {"category": cat, "text": text, "design_ref": f"DESIGN.md section {ref}"},
                "level_note": note,
                "technique": tech,
            })
        else:
            na.append({"property_id": i, "reason": NOT_YET.get(i, "check not built yet in this round (planned, see DESIGN.md section 4); not claimed until it runs")})
    m = {
        "version": 1,
        "setup_cmd": "./setup.sh",
        "hooks": {
            "guard": "--cfg rs_tftpd_verif",
            "enable": "RUSTFLAGS='--cfg rs_tftpd_verif' (set by ./check for the harness crate, which depends on /repo by path, and for the tftpd/tftpc binaries built from /repo's working tree into /verif/target)",
            "baseline_off_cmd": "cd /repo && cargo test --workspace --no-fail-fast --offline",
            "source_commits": HOOK_COMMITS,
            "add_only": True,
        },
        "engines": [
            {"name": "pure", "path": "harness/src/props", "serves_properties": ["C10", "C11", "C17", "C18"], "kind_free_text": "in-process property-based tests of the public API (proptest + bounded-exhaustive enumerators), oracles = independent reference codec / reference models"},
            {"name": "sim", "path": "harness/src/sim.rs", "serves_properties": ["C01", "C02", "C04", "C07", "C08", "C13", "C15", "C16"], "kind_free_text": "the real Worker::send_file/receive_file run against a simulated Socket with a fault-injecting network model, conformant model peers, adversarial scripts and a virtual clock; trace predicates as oracles"},
            {"name": "wire", "path": "harness/src/wire.rs", "serves_properties": ["C03", "C05", "C06", "C09", "C12", "C13", "C14"], "kind_free_text": "the real tftpd/tftpc binaries on loopback driven by generated datagram sequences and model clients; oracles = replies, source ports, timing bounds, exit status, filesystem snapshots"},
            {"name": "fuzz", "path": "fuzz", "serves_properties": ["C10", "C11", "C18", "C01", "C02"], "kind_free_text": "cargo-fuzz/libFuzzer targets calling the same judge functions (thorough tier)"},
        ],
        "checks": checks,
        "not_applicable": na,
        "notes": "Technique family: property-based testing and fuzzing. ./check builds harness and binaries from /repo's working tree on every invocation. Exit 2 = check could not run (never a verdict). known_findings.json lists open findings (suppressed by exact signature) and fixed records.",
    }
    if not na:
        del m["not_applicable"]
    json.dump(m, open('/verif/MANIFEST.json', 'w'), indent=1)
    print("checks:", [c["property_id"] for c in checks], "not_applicable:", [n["property_id"] for n in na])

main()
