#!/usr/bin/env python3
"""Regenerates /verif/MANIFEST.json from the table below (keeps it valid at all times)."""
import json, subprocess

HOOK_COMMITS = ["7a0cbf6"]

# id -> (engine, category, text, note, technique, design_ref)
CHECKS = {
 "C01": ("sim", "exploration",
   "The real Worker::send_file runs against a simulated socket; proptest generates blksize x windowsize x file size x handshake x fault fates x adversarial ACK scripts; trace predicates S1 (every DATA = its file slice), S2 (no block beyond the final one), S11 (a transfer that ends acknowledged has sent its short final block) and the model client's reassembled copy (identical or incomplete) decide. Wire parts repeat the slice check against the real tftpd with partial/duplicate ACKs and a retransmitted request, and run the real tftpc against the real tftpd through a relay that duplicates, reorders and drops datagrams (identical copy or none). Sampling, not exhaustive.",
   "Trusts the trace predicates (harness/src/pred.rs), the model client, and the virtual-clock hook; lying ACKs only without block-number wrap-around.",
   "proptest scenario generation over a simulated socket + model client, trace-predicate oracle; wire spot checks", "4/C01"),
 "C02": ("sim", "exploration",
   "The real Worker::receive_file under the simulated socket: arrivals generated from a conformant sender's datagrams by drop/dup/swap/late fates plus scripted duplicates, out-of-order blocks and strays; at every emitted ACK the file is read back from disk (R1 ACK never ahead, R2 file = in-order concatenation containing all acknowledged blocks, R5 final file). Wire parts upload to the real tftpd (also with maximal block sizes) and read the stored file at every received ACK, and run the real tftpc through a duplicating/reordering/dropping relay; a sixteenth of the sim cases runs under a file-size limit.",
   "Trusts pred.rs and the rule that injected DATA carries the true payload of its absolute block.",
   "proptest history generation over a simulated socket, on-disk oracle at every ACK; wire spot checks", "4/C02"),
 "C03": ("wire", "exploration",
   "Bounded-exhaustive enumeration of filenames (all joins of <=3 (thorough 4) segments from a traversal alphabet x 4 separators x 6 leading-separator kinds) plus proptest random names, sent as RRQ and WRQ to the real tftpd over a sandbox tree with unique contents in 8 configurations; oracle = replies carry only send-directory file contents, recursive snapshot changes only inside the receive directory and only after an accepted write.",
   "No symlinks in the tree; Linux path semantics; snapshot attribution is batch-wise (changes allowed in the receive dir once any WRQ of the batch was accepted).",
   "bounded-exhaustive name enumeration + proptest, filesystem-snapshot oracle against the real binary", "4/C03"),
 "C04": ("sim", "fault_enumeration",
   "Every placement of 1 and 2 faults (thorough 3) of 4 kinds over all datagrams of both directions for windowsize 1..4 (5), 6 lengths x 3 last-block shapes, 2 peer styles, both roles, plus proptest random fault lists (<=5 faults), 6..11 isolated faults three windows apart, a wire part with 1..5 consecutive losses against the real tftpd at timeout 1 s, and the real tftpc against the real tftpd through a relay that drops one data-phase datagram (thorough: also with a negotiated timeout of 28 / 31 s, real time); negotiated timeouts of 1..255 s in the simulator (virtual time); oracle = model peer holds the complete file and the worker ended successfully (RFC 1350 last-ACK exception only).",
   "Precondition by construction (<=5 faults, peer timer = worker timeout). Exhaustive only inside the stated box.",
   "exhaustive fault-placement enumeration + proptest, completion oracle with a conformant model peer", "4/C04"),
 "C05": ("wire", "exploration",
   "Generated datagram sequences (proptest: option boundary values up to and beyond 2^64, structure-aware mutations, raw bytes, oversized datagrams, 4 sources) a deterministic option x value sweep against a fresh real tftpd per case in 4 modes, and long-lived servers (700/5000 sequential transfers); oracle = liveness probes from a fresh socket and from a socket of the sequence (canonical RRQ served correctly) and process still running; isolated re-run before reporting.",
   "At most 29 datagrams per fresh server; volume-based exhaustion not explored.",
   "proptest sequence generation + mutation against the real binary, liveness-probe oracle", "4/C05"),
 "C06": ("wire", "exploration",
   "Exhaustive decision table (32 configurations x RRQ/WRQ x 14 targets (incl. backslash spellings) x {plain, with an unhonourable option value where a refusal is due}) plus model-based testing: proptest generates a configuration and a history of <=11 requests; served files are replaced on disk between requests (an acknowledged tsize must be the current size); a reference decision table and model filesystem predict each reply class and the exact tree; the real send/receive trees are compared byte-for-byte with the model after every step.",
   "Targets live in existing directories; aborted uploads follow C13's clean/keep rule in the model.",
   "model-based stateful proptest (decision table + model filesystem) against the real binary", "4/C06"),
 "C07": ("sim", "fault_enumeration",
   "Exhaustive over every receive position x cause (silence, ERROR 0..7, long ERROR, every ACK pattern / duplicate / out-of-order datagram) for windowsize 1..4 (8), lengths around one and two windows, both roles, with/without handshake; proptest scripts beyond; trace predicates S2/S6/S7/S8/R4; a wire part checks real timeouts (default 5 s, bounded number of retransmissions, abandoned upload cleaned up, long ERROR ends the transfer).",
   "Virtual clock in the sim part; the wire part uses real time with tolerances and an isolated re-run.",
   "exhaustive position x cause enumeration + proptest scripts, trace predicates; wire timing part", "4/C07"),
 "C08": ("sim", "exploration",
   "proptest scripts of duplicate/stale/partial ACKs, forced timeouts and deliveries at 0, 1/4, 1/2, 999/1000 and 1 timeout of virtual time for windowsize 1..16, 65534, 65535 and random; long transfers with stale numbers from behind the wrap; receiver role with duplicates; predicates S3/S4/S5/S10/R3, no panic, and completion after harmless ACKs; windows of more than 32768 filled blocks; wire parts: burst size never above the acknowledged windowsize (model client with enlarged receive buffer) and, in real time, no retransmission on a stale ACK after a window whose transmission outlasts the timeout.",
   "Stale ACK numbers never alias an outstanding block; handshake is left undisturbed.",
   "proptest adversarial-script generation with a virtual clock, trace-predicate oracle", "4/C08"),
 "C09": ("wire", "exploration",
   "Deterministic boundary sweep and all 65 ordered option selections, then proptest generates subsets/orders/cases of the four options with boundary and unhonourable values (also > 2^16 and > 2^32 non-multiples), unknown options interleaved (also runs of 6-15 of them), a recognised option repeated with one unhonourable value, a tsize beyond 64 bits on a WRQ, a second tsize query after the file was replaced, RRQ/WRQ, both port modes; OACK truthfulness rules and then the measured transfer (exact block length, exact burst size incl. windows larger than the socket buffer, ACK after exactly W blocks, retransmission not before the acknowledged timeout, content).",
   "Timeouts > 255 not generated; timing tolerance 130 ms; big-window cases need SO_RCVBUFFORCE (skipped otherwise).",
   "proptest option-grammar generation against the real binary, reference negotiation rules + measured transfer", "4/C09"),
 "C10": ("pure", "exploration",
   "Generated-input search over byte strings against a reference decoder: bounded-exhaustive enumeration (all strings <=6 (quick) / <=7 (thorough) over a 12-byte structural alphabet, all 65536 opcode prefixes x 20 tails, all short token sequences of the option grammar) plus seeded proptest generation of mutated valid packets and raw datagrams up to 64 KiB; oracle = no panic, rejection wherever a rule named by the property applies, re-encode stability of everything accepted.",
   "Trusts the independent reference decoder in harness/src/refcodec.rs; ERROR messages without NUL are exempt (pinned baseline test requires acceptance).",
   "bounded-exhaustive enumeration + proptest (mutation-based) + libFuzzer target, reference-decoder oracle", "4/C10"),
 "C11": ("pure", "exploration",
   "proptest generation of Packet values from a grammar (option lists of up to 40 pairs) compared byte-for-byte with an independent RFC encoder and decoded by both decoders; exhaustive sweep of all 65536 u16 values through Opcode/ErrorCode conversions and DATA/ACK block numbers.",
   "Trusts harness/src/refcodec.rs as the statement of the RFC layout.",
   "proptest grammar-based generation, differential against independent codec, exhaustive u16 sweep", "4/C11"),
 "C12": ("wire", "exploration",
   "K model clients against one real tftpd with a generated single-threaded schedule (= arrival order at the listener) and injected foreign/stray datagrams (also late ones to a former transfer endpoint); exhaustive interleavings for K=2 short transfers in both port modes, proptest for K<=16; a paced conformant transfer that outlives six timeouts while other clients are served; oracle = per-client content, source ports, ERROR replies to ownerless endpoints, no leak.",
   "Interleaving granularity = one request or window per step; server-internal bind/connect gap not schedulable.",
   "exhaustive 2-client interleavings + proptest schedules against the real binary", "4/C12"),
 "C13": ("sim", "fault_enumeration",
   "Every abort point (silence / peer ERROR at every receive position; write error via RLIMIT_FSIZE at every block edge) x clean/keep x windowsize 1..4 (6) in the simulator plus proptest; a wire part aborts real uploads (with/without tsize, clean/keep, ERROR/silence) and generates duplicate/retransmitted WRQ histories against the real tftpd, waiting out the stale workers, and a later WRQ for the name that is never accepted (unhonourable option): the completed file must stay. Known finding F6 (signature stale-upload-worker-cleanup) is tolerated for exactly that outcome and printed as KNOWN-FINDING.",
   "Write errors only as EFBIG; the no-overwrite create/exists race is judged whichever way it falls.",
   "exhaustive abort-point enumeration + proptest, directory post-condition oracle; wire histories", "4/C13"),
 "C14": ("wire", "exploration",
   "The real tftpc against the real tftpd: a deterministic size x option grid and proptest over direction x port mode x IPv4/IPv6 x path style x blksize x windowsize x timeout x size families x refusal kinds x server --duplicate-packets x client --keep-on-error x stale destination file x lower/upper/mixed-case basenames x uploads that also carry -rd (decoy file there), plus 65536- and 65538-block transfers; oracle = byte-identical files at the documented locations, refusal behaviour, termination within a watchdog.",
   "One burst kept below 100 KB (loopback drops); absolute local paths not generated.",
   "proptest configuration generation driving both real binaries, file-equality oracle", "4/C14"),
 "C15": ("sim", "exploration",
   "65534..65538- and 131071..131073-block transfers through the real worker in both roles with windows ending before/at/after the wrap and faults placed there (proptest) plus every single drop/dup/late fault on every datagram around block 65536 for windowsize {1,2,4,5} (exhaustive); predicates with absolute indices, content encodes the absolute offset. Wire transfers beyond 65535 blocks run in C14.",
   "blksize 8 only for the long transfers.",
   "proptest + exhaustive single-fault enumeration at the wrap over a simulated socket, absolute-index trace predicates", "4/C15"),
 "C16": ("sim", "exploration",
   "repeat = N+1 for N in {0,1,2,3,254} x roles x windows x sizes in the simulator (S9 multiplicity, content, termination), the repo's own sender against its own receiver over an in-memory link with N on either side, burst losses in duplicate mode, an uploader that leaves after the final ACK, and a wire grid --duplicate-packets {0,1,2,3,254,255,256,-1,1000,x} x port mode x options (initial reply once - OACK, ACK 0 and every refusal kind - DATA/ACK N+1 times, start-up rejection) plus two-window 300-block uploads and a real-time stale-ACK case.",
   "The 1 ms sleep between copies is not judged.",
   "proptest over the simulated socket and an in-memory worker pair, multiplicity oracle; wire grid", "4/C16"),
 "C17": ("pure", "exploration",
   "proptest argument vectors over the full server and client flag sets (valid/invalid values, repeats, unknown flags, dangling flag, mixed-case file names and flag look-alikes, relative directories) compared field by field with a reference parser, plus a metamorphic re-parse of a permutation that keeps each flag's last occurrence; exhaustive ordered selections of <=4 of 16 representative groups.",
   "-h/--help excluded (exits the process).",
   "proptest + exhaustive permutations, reference parser and permutation metamorphic relation", "4/C17"),
 "C18": ("pure", "exploration",
   "Model-based: operation sequences over tftpd::Window (reader and writer machines) compared after every step with a VecDeque reference + file cursor; exhaustive sequences up to length 5 (6) over 4 ops on a parameter grid, proptest sequences up to 40 ops incl. bulk adds and windows of 255..4096 and 65535.",
   "fill only on readable files, empty only on writable ones (callers' use).",
   "exhaustive short sequences + model-based proptest, VecDeque reference model", "4/C18"),
}

NOT_YET = {}

def main():
    props = [json.loads(l) for l in open('/verif/properties.jsonl')]
    checks = []
    na = []
    for p in props:
        i = p["id"]
        if i in CHECKS:
            eng, cat, text, note, tech, ref = CHECKS[i]
            checks.append({
                "property_id": i,
                "quick_cmd": f"./check {i} --tier quick",
                "thorough_cmd": f"./check {i} --tier thorough",
                "evidence_file": f"/verif/evidence/{i}.json",
                "replay_cmd_template": f"./check {i} --replay {{path}}",
                "engine": eng,
                "level_claimed": {"category": cat, "text": text, "design_ref": f"DESIGN.md section {ref}"},
                "level_note": note,
                "technique": tech,
            })
        else:
            na.append({"property_id": i, "reason": NOT_YET.get(i, "check not built yet in this round (planned, see DESIGN.md section 4); not claimed until it runs")})
    m = {
        "version": 1,
        "setup_cmd": "./setup.sh",
        "hooks": {
            "guard": "--cfg rs_tftpd_verif",
            "enable": "RUSTFLAGS='--cfg rs_tftpd_verif' (set by ./check for the harness crate, which depends on /repo by path, and for the tftpd/tftpc binaries built from /repo's working tree into /verif/target)",
            "baseline_off_cmd": "cd /repo && cargo test --workspace --no-fail-fast --offline",
            "source_commits": HOOK_COMMITS,
            "add_only": True,
        },
        "engines": [
            {"name": "pure", "path": "harness/src/props", "serves_properties": ["C10", "C11", "C17", "C18"], "kind_free_text": "in-process property-based tests of the public API (proptest + bounded-exhaustive enumerators), oracles = independent reference codec / reference models"},
            {"name": "sim", "path": "harness/src/sim.rs", "serves_properties": ["C01", "C02", "C04", "C07", "C08", "C13", "C15", "C16"], "kind_free_text": "the real Worker::send_file/receive_file run against a simulated Socket with a fault-injecting network model, conformant model peers, adversarial scripts and a virtual clock; trace predicates as oracles"},
            {"name": "wire", "path": "harness/src/wire.rs", "serves_properties": ["C03", "C05", "C06", "C09", "C12", "C13", "C14"], "kind_free_text": "the real tftpd/tftpc binaries on loopback driven by generated datagram sequences and model clients; oracles = replies, source ports, timing bounds, exit status, filesystem snapshots"},
            {"name": "fuzz", "path": "fuzz", "serves_properties": ["C10", "C11", "C18", "C01", "C02", "C04", "C07", "C08"], "kind_free_text": "cargo-fuzz/libFuzzer targets calling the same judge functions (thorough tier)"},
        ],
        "checks": checks,
        "not_applicable": na,
        "notes": "Technique family: property-based testing and fuzzing. ./check builds harness and binaries from /repo's working tree on every invocation. Exit 2 = check could not run (never a verdict). known_findings.json lists open findings (suppressed by exact signature) and fixed records.",
    }
    if not na:
        del m["not_applicable"]
    json.dump(m, open('/verif/MANIFEST.json', 'w'), indent=1)
    print("checks:", [c["property_id"] for c in checks], "not_applicable:", [n["property_id"] for n in na])

main()
