#!/usr/bin/env python3
"""Regenerates the table in DESIGN.md section 11 from seeded/*/meta.json."""
import json, glob, os, re
rows=[]
for d in sorted(glob.glob('/verif/seeded/*')):
    if os.path.basename(d).startswith('benign-'): continue
    try: m=json.load(open(os.path.join(d,'meta.json')))
    except Exception: continue
    name=os.path.basename(d)
    conf=m.get('confirmations',{})
    ok=all(conf.get(k) for k in ['applies','compiles','baseline_passes_with_patch','demo_fails_with_patch','demo_passes_without_patch'])
    caught=[]; missed=[]
    for cid,r in (m.get('checks_run') or {}).items():
        if not isinstance(r,dict): continue
        sig=''
        mm=re.search(r'signature=([^ ]+)', r.get('first',''))
        if mm: sig=mm.group(1)
        (caught if r.get('violation') else missed).append(cid+(f' ({sig})' if sig and r.get('violation') else ''))
    summ=(m.get('summary') or '').replace('|','/').replace('\n',' ')
    if len(summ)>170: summ=summ[:167]+'...'
    hist=m.get('history','')
    rows.append(f"| {name} | {summ} | {'yes' if ok else 'NO'} | {', '.join(caught) or '-'} | {', '.join(missed) or '-'} | {hist} |")
table="| change | what it does | confirmed | caught by (quick tier, signature) | also run, silent | note |\n|---|---|---|---|---|---|\n"+"\n".join(rows)
p='/verif/DESIGN.md'; s=open(p).read()
a=s.index('<!-- SEEDED-TABLE-BEGIN -->')+len('<!-- SEEDED-TABLE-BEGIN -->')
b=s.index('<!-- SEEDED-TABLE-END -->')
s=s[:a]+"\n"+table+"\n"+s[b:]
open(p,'w').write(s)
print(len(rows),'rows')

# benign changes
brows=[]
for d in sorted(glob.glob('/verif/seeded/benign-*')):
    try: m=json.load(open(os.path.join(d,'meta.json')))
    except Exception: continue
    alarms=[k for k,v in (m.get('checks_run') or {}).items() if isinstance(v,dict) and v.get('violation')]
    summ=(m.get('summary') or '').replace('|','/').replace('\n',' ')
    if len(summ)>200: summ=summ[:197]+'...'
    brows.append(f"| {os.path.basename(d)} | {summ} | {len(m.get('checks_run') or {})} | {', '.join(alarms) or 'none'} | {m.get('history','')} |")
btable="| change | what it does | checks run | alarms | note |\n|---|---|---|---|---|\n"+"\n".join(brows)
s2=open(p_design:='/verif/DESIGN.md').read()
if '<!-- BENIGN-TABLE-BEGIN -->' in s2:
    a=s2.index('<!-- BENIGN-TABLE-BEGIN -->')+len('<!-- BENIGN-TABLE-BEGIN -->')
    b=s2.index('<!-- BENIGN-TABLE-END -->')
    s2=s2[:a]+"\n"+btable+"\n"+s2[b:]
    open(p_design,'w').write(s2)
print(len(brows),'benign rows')
