#!/usr/bin/env bash
# runs every check's quick tier once and prints one line per check
cd /verif
for id in C01 C02 C03 C04 C05 C06 C07 C08 C09 C10 C11 C12 C13 C14 C15 C16 C17 C18; do
  s=$(date +%s)
  out=$(timeout 1500 ./check $id --tier quick 2>&1); rc=$?
  e=$(date +%s)
  echo "$id rc=$rc $((e-s))s $(echo "$out" | grep -E "^(VIOLATION|KNOWN-FINDING|BUILD|CHECK DID)" | cut -c1-160 | tr '\n' ' ')"
done
