#!/usr/bin/env python3
"""harvest.py <worktree> <PROP> [extra check ids...]
Confirms each mutant<i>/ found in the worktree (compiles, baseline passes, demo fails with / passes without),
stores it under /verif/seeded/<PROP>-m<i>/ and runs ./check <PROP> (and extra ids) against it in /repo."""
import json, os, shutil, subprocess, sys, glob, re

def sh(cmd, cwd, timeout=1200):
    env = dict(os.environ, CARGO_NET_OFFLINE="true")
    try:
        p = subprocess.run(["bash", "-c", cmd], cwd=cwd, env=env, stdout=subprocess.PIPE, stderr=subprocess.STDOUT, timeout=timeout)
        return p.returncode, p.stdout.decode(errors="replace")
    except subprocess.TimeoutExpired as e:
        return 124, (e.stdout or b"").decode(errors="replace") + "\nTIMEOUT"

def main():
    wt, prop = sys.argv[1], sys.argv[2]
    extra = sys.argv[3:]
    pat = os.environ.get("HARVEST_GLOB", "mutant*")
    tag = os.environ.get("HARVEST_TAG", "m")
    for mdir in sorted(glob.glob(os.path.join(wt, pat))):
        name = os.path.basename(mdir)
        idx = re.sub(r"\D", "", name.replace("r2", "")) or "x"
        patch = os.path.join(mdir, "patch.diff")
        if not os.path.exists(patch):
            print(name, "no patch.diff"); continue
        meta = {}
        try:
            meta = json.load(open(os.path.join(mdir, "meta.json")))
        except Exception as e:
            print(name, "meta.json unreadable", e)
        demo = meta.get("demo", "")
        auto = (sys.argv[2] == "AUTO")
        if auto:
            prop = (meta.get("property") or "C00").strip()[:3]
        rec = {"property": prop, "summary": meta.get("summary"), "needs": meta.get("needs"), "demo": demo, "confirmations": {}}
        # clean state
        sh("git checkout -- . && git clean -fdq tests", wt)
        rc, out = sh(f"git apply --check {patch} && git apply {patch}", wt)
        rec["confirmations"]["applies"] = rc == 0
        if rc != 0:
            print(name, "patch does not apply:", out[-300:]); continue
        rc, out = sh("cargo build --offline --features client 2>&1 | tail -3", wt)
        rec["confirmations"]["compiles"] = rc == 0 and "error" not in out
        rc, out = sh("cargo test --workspace --no-fail-fast --offline 2>&1 | grep -E 'test result|FAILED|panicked' | head", wt)
        ok42 = "42 passed; 0 failed" in out and "FAILED" not in out
        if not ok42:  # one retry: the suite has a known shared-directory flake
            rc, out = sh("cargo test --workspace --no-fail-fast --offline 2>&1 | grep -E 'test result|FAILED|panicked' | head", wt)
            ok42 = "42 passed; 0 failed" in out and "FAILED" not in out
        rec["confirmations"]["baseline_passes_with_patch"] = ok42
        rc_with, out_with = sh(demo, wt, 600) if demo else (None, "")
        bad = lambda o: ("test result: FAILED" in o) or ("panicked at" in o) or ("FAILED" in o) or ("error: test failed" in o)
        rec["confirmations"]["demo_fails_with_patch"] = (rc_with not in (0, None)) or bad(out_with)
        sh("git checkout -- src Cargo.toml", wt)
        rc_wo, out_wo = sh(demo, wt, 600) if demo else (None, "")
        rec["confirmations"]["demo_passes_without_patch"] = (rc_wo == 0) and not bad(out_wo) and ("test result: ok" in out_wo or "PASS" in out_wo.upper())
        sh("git checkout -- . && git clean -fdq tests", wt)
        dest = f"/verif/seeded/{prop}-{tag}{idx}"
        os.makedirs(dest, exist_ok=True)
        for f in os.listdir(mdir):
            if os.path.isfile(os.path.join(mdir, f)) and os.path.getsize(os.path.join(mdir, f)) < 2_000_000:
                shutil.copy(os.path.join(mdir, f), dest)
        # run the checks against the mutant in /repo
        import fcntl
        lockf = open("/tmp/harvest.repo.lock", "w"); fcntl.flock(lockf, fcntl.LOCK_EX)  # one change at a time in /repo
        st = subprocess.run(["git", "-C", "/repo", "status", "--porcelain"], stdout=subprocess.PIPE).stdout.decode().strip()
        if st:
            print("/repo is not clean, refusing to apply:", st); sys.exit(2)
        rc, out = sh(f"git -C /repo apply {patch}", "/verif")
        results = {}
        if rc == 0:
            try:
                for cid in list(dict.fromkeys([prop] + extra)):
                    rc, out = sh(f"set -o pipefail; ./check {cid} --tier quick 2>&1 | tail -6", "/verif", 1500)
                    viol = [l for l in out.splitlines() if l.startswith("VIOLATION")]
                    sig = [l.strip() for l in out.splitlines() if "signature=" in l]
                    results[cid] = {"exit": rc, "violation": bool(viol), "first": (sig[0][:400] if sig else out[-300:])}
                    # replays written while a mutant is applied are not regressions of the real tree
                    for f in glob.glob("/verif/replays/*.json"):
                        os.remove(f)
            finally:
                subprocess.run(["git", "-C", "/repo", "checkout", "--", "."])
        else:
            results["apply_to_repo"] = out[-300:]
        fcntl.flock(lockf, fcntl.LOCK_UN); lockf.close()
        rec["checks_run"] = results
        rec["what_i_ran"] = "tools/harvest.py: git apply in scratch worktree, cargo build --features client, cargo test --workspace --offline, demo with/without patch; then git -C /repo apply, ./check <id> --tier quick, git -C /repo checkout -- ."
        json.dump(rec, open(os.path.join(dest, "meta.json"), "w"), indent=1)
        print(name, json.dumps(rec["confirmations"]), {k: (v.get("exit"), v.get("first", "")[:160]) if isinstance(v, dict) else v for k, v in results.items()})

main()
